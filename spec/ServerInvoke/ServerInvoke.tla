---------------------------- MODULE ServerInvoke ----------------------------
(* C10 - the server answers each well-formed request exactly once with matching identity.            *)
(*                                                                                                   *)
(* Part 1 (constant level): the relation Resp between a request, the server configuration and what    *)
(* may come back - how many replies, which identity they carry, which result they convey and whether  *)
(* the implementation may have run.  It is written from the property statement, not from the code,    *)
(* and it is what the batch oracle (Oracle_ServerInvoke) applies to the replies of the real server.   *)
(*                                                                                                   *)
(* Part 2 (state machine): the server side of one adapter, shaped like the code - receive loop per    *)
(* connection, goroutine per request or a FIFO job queue with Pool workers, Protocol.Invoke as a      *)
(* sequence of steps (decode, deadline check / ping short cut, dispatch, packet type into the         *)
(* Current, result), TarsServer.invoke with a handle timeout (invoker goroutine, timer, shared rsp    *)
(* variable, InvokeTimeout), the handler reading the packet type from the Current and writing.        *)
(* TLC checks that every schedule of that design produces, per request, exactly what Resp allows.     *)
(* The three deviations of the pinned tree are switchable (KF_...) so that each is shown to break a   *)
(* named invariant; the verdict on the real code never uses them.                                     *)
EXTENDS Integers, Sequences, FiniteSets, TLC

\* ------------------------------------------------------------------ Part 1: the relation
TARSV == 1  TUPV == 3  JSONV == 5                 \* basef.TARSVERSION / TUPVERSION / JSONVERSION
NORMAL == 0  ONEWAY == 1                          \* basef.TARSNORMAL / TARSONEWAY
Zero4 == <<0, 0, 0, 0>>                           \* int32 as four bytes, big endian, two's complement
One4 == <<0, 0, 0, 1>>
QueueTimeout4 == <<255, 255, 255, 250>>           \* basef.TARSSERVERQUEUETIMEOUT = -6

Fns == {"tars_ping", "ok", "note", "fail", "slow", "nosuch"}
\* request q: [id (4 bytes), ver, pt, fn, tmo, cls, code (4 bytes), msg (bytes)]
\*   tmo: "zero" (no timeout) | "ample" | "elapsed" (the request's own timeout ran out before Invoke looked at it)
\*   cls (fn = "slow" only): "short" | "over"/"block" (far longer than any handle timeout) | "near" (about the handle timeout)
\* configuration c: [pool (0 = goroutine per request), ht (handle timeout configured?), proto,
\*                   filt (server filters registered in the process), wctx (servant registered with context?)]
\*   filt: "none" | "legacy" (tars.RegisterServerFilter) | "prepost" (pre and post filters) | "mw" (filter middlewares) | "all"
\*   The filters are observers that pass the call on unchanged (what a metrics / tracing plug-in does).  The statement
\*   does not mention filters: "every ... configuration" includes the ones with such filters registered, and the relation
\*   below deliberately does not look at c.filt or c.wctx - whatever is registered, the same replies are owed.
FilterKinds == {"none", "legacy", "prepost", "mw", "all"}
Elapsed(q) == q.tmo = "elapsed"
OverLong(q, c) == c.ht /\ q.fn = "slow" /\ q.cls \in {"over", "block"} /\ ~Elapsed(q)
Racy(q, c) == c.ht /\ q.fn = "slow" /\ q.cls = "near" /\ ~Elapsed(q)

\* the situation a request is in (used for the result rule and to name failing input classes)
Situation(q, c) ==
  IF Elapsed(q) THEN (IF q.fn = "tars_ping" THEN "ping-queue-timeout" ELSE "queue-timeout")
  ELSE IF q.fn = "tars_ping" THEN "ping"
  ELSE IF OverLong(q, c) THEN "handle-timeout"
  ELSE IF Racy(q, c) THEN "near-handle-timeout"
  ELSE IF q.fn = "fail" THEN "impl-error"
  ELSE IF q.fn = "nosuch" THEN "unknown-func"
  ELSE "success"                                  \* ok, note, slow that finishes in time

NReplies(q) == IF q.pt = ONEWAY THEN 0 ELSE 1
\* may the implementation have been entered?  (ping and queue-timeout: never; the statement is silent otherwise)
MustNotRun(q, c) == Elapsed(q) \/ q.fn = "tars_ping"

\* result (return code, description) a two-way reply must convey
ResultOK(q, c, ret, desc) ==
  LET s == Situation(q, c) IN
  CASE s = "queue-timeout"       -> ret = QueueTimeout4
    [] s = "ping-queue-timeout"  -> ret \in {Zero4, QueueTimeout4}      \* two clauses of the statement apply; either is accepted
    [] s = "ping"                -> ret = Zero4
    [] s = "success"             -> ret = Zero4
    [] s = "impl-error"          -> /\ ret # Zero4
                                    /\ q.code # Zero4 => ret = q.code   \* code 0 stands for an error that has no code of its own
                                    /\ desc = q.msg
    [] s = "handle-timeout"      -> ret # Zero4                         \* "a timeout error"
    [] s = "near-handle-timeout" -> TRUE                                \* either outcome of the race
    [] s = "unknown-func"        -> TRUE                                \* the statement does not say
\* abstract reply y: [id, ver, pt, ret, desc]
IdentityFaults(q, y) ==
  (IF y.ver # q.ver THEN {"version-not-echoed"} ELSE {}) \cup (IF y.pt # q.pt THEN {"packet-type-not-echoed"} ELSE {})
\* the clauses broken by the replies ys (a sequence, all carrying q's id) and the implementation count
Faults(q, c, ys, impl) ==
  (IF Len(ys) > NReplies(q) THEN {IF q.pt = ONEWAY THEN "oneway-answered" ELSE "duplicate-reply"} ELSE {})
  \cup (IF Len(ys) < NReplies(q) THEN {"no-reply"} ELSE {})
  \cup (IF NReplies(q) = 1 /\ Len(ys) >= 1
        THEN UNION {IdentityFaults(q, ys[i]) \cup (IF ResultOK(q, c, ys[i].ret, ys[i].desc) THEN {} ELSE {"wrong-result"}) : i \in 1..Len(ys)}
        ELSE {})
  \cup (IF MustNotRun(q, c) /\ impl > 0 THEN {"executed-but-must-not"} ELSE {})
Resp(q, c, ys, impl) == Faults(q, c, ys, impl) = {}

\* ------------------------------------------------------------------ Part 2: the server
CONSTANTS NReq,                   \* number of requests
          NConn,                  \* client connections
          Shapes,                 \* request shapes [ver, pt, fn, tmo, cls, code, msg] the requests are drawn from
          Pools,                  \* pool sizes to explore (0 = none)
          HTs,                    \* subset of BOOLEAN: handle timeout configured or not
          TimerAfterDecode,       \* TRUE: the handle timeout is longer than it takes the invoker to decode the request
          KF_BlankTimeoutReply,   \* F8: InvokeTimeout answers with version 0 / packet type 0
          KF_PacketTypeSetLate,   \* F9: the packet type reaches the Current only when Invoke is about to return
          KF_TupDropsResult,      \* F10: a TUP reply is re-encoded as a RequestPacket, losing code and description
          Filts,                  \* subset of FilterKinds: filter registrations to explore
          VG_PingThroughFilter    \* vacuity guard (not a finding of the tree): with a legacy filter registered the ping short cut is
                                  \* skipped and the ping goes through the filter to the dispatcher, which does not know the function

VARIABLES cfg,        \* [pool, ht, filt]
          reqs,       \* 1..NReq -> request (shape + id + conn)
          unread,     \* conn -> sequence of request numbers the server has not read yet (pipelined, in order)
          queue,      \* the pool's job queue
          worker,     \* 1..pool -> request being handled, 0 = idle
          hpc,        \* handler of request r: "none" "queued" "spawned" "start" "inline" "wait" "check" "readpt" "write" "done"
          ipc,        \* invoker (Protocol.Invoke) of r: "idle" "decode" "check" "exec" "setpt" "setrsp" "cancel" "end"
          fired,      \* the handle-timeout timer of r fired
          cancelled,  \* the invoker called cancelFunc
          rspLocal,   \* the invoker's rspPackage once built
          rspVar,     \* the variable rsp shared between the invoker goroutine and TarsServer.invoke
          out,        \* what the handler is going to write
          ctxPt,      \* packet type in the request's Current (0 until somebody stores it)
          impl,       \* times the implementation was entered
          wire,       \* conn -> replies written back
          answered    \* r -> replies written
vars == <<cfg, reqs, unread, queue, worker, hpc, ipc, fired, cancelled, rspLocal, rspVar, out, ctxPt, impl, wire, answered>>

R == 1..NReq
Nil == [nil |-> TRUE]
IdOf(r) == <<0, 0, 0, r>>
C == [pool |-> cfg.pool, ht |-> cfg.ht, proto |-> "tcp", filt |-> cfg.filt, wctx |-> TRUE]
ASSUME Filts \subseteq FilterKinds

Init ==
  /\ cfg \in [pool : Pools, ht : HTs, filt : Filts]
  /\ \E sh \in [R -> Shapes], co \in [R -> 1..NConn] :
       /\ co[1] = 1                                            \* connections are interchangeable
       /\ reqs = [r \in R |-> [id |-> IdOf(r), conn |-> co[r], ver |-> sh[r].ver, pt |-> sh[r].pt, fn |-> sh[r].fn,
                               tmo |-> sh[r].tmo, cls |-> sh[r].cls, code |-> sh[r].code, msg |-> sh[r].msg]]
       /\ unread = [c \in 1..NConn |-> SelectSeq([i \in 1..NReq |-> i], LAMBDA r : co[r] = c)]
  /\ queue = <<>>
  /\ worker = [w \in 1..cfg.pool |-> 0]
  /\ hpc = [r \in R |-> "none"]
  /\ ipc = [r \in R |-> "idle"]
  /\ fired = [r \in R |-> FALSE]
  /\ cancelled = [r \in R |-> FALSE]
  /\ rspLocal = [r \in R |-> Nil]
  /\ rspVar = [r \in R |-> Nil]
  /\ out = [r \in R |-> Nil]
  /\ ctxPt = [r \in R |-> NORMAL]
  /\ impl = [r \in R |-> 0]
  /\ wire = [c \in 1..NConn |-> <<>>]
  /\ answered = [r \in R |-> 0]

\* ---- transport: receive loop, pool / goroutine per request
Recv(c) ==
  /\ unread[c] # <<>>
  /\ LET r == Head(unread[c]) IN
     /\ unread' = [unread EXCEPT ![c] = Tail(@)]
     /\ IF cfg.pool > 0 THEN queue' = Append(queue, r) /\ hpc' = [hpc EXCEPT ![r] = "queued"]
                        ELSE queue' = queue /\ hpc' = [hpc EXCEPT ![r] = "spawned"]
  /\ UNCHANGED <<cfg, reqs, worker, ipc, fired, cancelled, rspLocal, rspVar, out, ctxPt, impl, wire, answered>>
Pick(w) ==
  /\ worker[w] = 0 /\ queue # <<>>
  /\ worker' = [worker EXCEPT ![w] = Head(queue)]
  /\ queue' = Tail(queue)
  /\ hpc' = [hpc EXCEPT ![Head(queue)] = "start"]
  /\ UNCHANGED <<cfg, reqs, unread, ipc, fired, cancelled, rspLocal, rspVar, out, ctxPt, impl, wire, answered>>
Go(r) ==
  /\ hpc[r] = "spawned"
  /\ hpc' = [hpc EXCEPT ![r] = "start"]
  /\ UNCHANGED <<cfg, reqs, unread, queue, worker, ipc, fired, cancelled, rspLocal, rspVar, out, ctxPt, impl, wire, answered>>
\* TarsServer.invoke: inline without a handle timeout, else a goroutine and a wait on the context
Start(r) ==
  /\ hpc[r] = "start"
  /\ hpc' = [hpc EXCEPT ![r] = IF cfg.ht THEN "wait" ELSE "inline"]
  /\ ipc' = [ipc EXCEPT ![r] = "decode"]
  /\ UNCHANGED <<cfg, reqs, unread, queue, worker, fired, cancelled, rspLocal, rspVar, out, ctxPt, impl, wire, answered>>
Finish(r) ==      \* the handler is done with r: a pool worker becomes idle again
  worker' = [w \in DOMAIN worker |-> IF worker[w] = r THEN 0 ELSE worker[w]]

\* ---- Protocol.Invoke, step by step
Built(r, ret, desc) == [id |-> reqs[r].id, ver |-> reqs[r].ver, pt |-> reqs[r].pt, ret |-> ret, desc |-> desc]
Decode(r) ==
  /\ ipc[r] = "decode"
  /\ ipc' = [ipc EXCEPT ![r] = "check"]
  /\ ctxPt' = IF KF_PacketTypeSetLate THEN ctxPt ELSE [ctxPt EXCEPT ![r] = reqs[r].pt]
  /\ UNCHANGED <<cfg, reqs, unread, queue, worker, hpc, fired, cancelled, rspLocal, rspVar, out, impl, wire, answered>>
Check(r) ==
  /\ ipc[r] = "check"
  /\ IF Elapsed(reqs[r])
       THEN rspLocal' = [rspLocal EXCEPT ![r] = Built(r, QueueTimeout4, <<113>>)] /\ ipc' = [ipc EXCEPT ![r] = "setpt"]
     ELSE IF reqs[r].fn = "tars_ping" /\ ~(VG_PingThroughFilter /\ cfg.filt \in {"legacy", "all"})
       THEN rspLocal' = [rspLocal EXCEPT ![r] = Built(r, Zero4, <<>>)] /\ ipc' = [ipc EXCEPT ![r] = "setpt"]
     ELSE rspLocal' = rspLocal /\ ipc' = [ipc EXCEPT ![r] = "exec"]
  /\ UNCHANGED <<cfg, reqs, unread, queue, worker, hpc, fired, cancelled, rspVar, out, ctxPt, impl, wire, answered>>
\* the registered filters (observers, they change nothing) and the dispatcher, as one step;
\* dispatch: unknown function (a ping that got this far included) -> error without entering the implementation; an over-long implementation returns
\* only after the handler has given up on it (that is what over-long means: it outlasts the timer and the handler's
\* reaction to it), a racy one whenever it likes
Exec(r) ==
  /\ ipc[r] = "exec"
  /\ OverLong(reqs[r], C) => hpc[r] \in {"readpt", "write", "done"}
  /\ LET q == reqs[r] IN
     /\ impl' = IF q.fn \in {"nosuch", "tars_ping"} THEN impl ELSE [impl EXCEPT ![r] = @ + 1]
     /\ rspLocal' = [rspLocal EXCEPT ![r] =
          CASE q.fn = "fail" -> Built(r, IF q.code = Zero4 THEN One4 ELSE q.code, q.msg)
            [] q.fn \in {"nosuch", "tars_ping"} -> Built(r, One4, <<102>>)
            [] OTHER -> Built(r, Zero4, <<>>)]
  /\ ipc' = [ipc EXCEPT ![r] = "setpt"]
  /\ UNCHANGED <<cfg, reqs, unread, queue, worker, hpc, fired, cancelled, rspVar, out, ctxPt, wire, answered>>
SetPt(r) ==
  /\ ipc[r] = "setpt"
  /\ ctxPt' = [ctxPt EXCEPT ![r] = reqs[r].pt]
  /\ ipc' = [ipc EXCEPT ![r] = "setrsp"]
  /\ UNCHANGED <<cfg, reqs, unread, queue, worker, hpc, fired, cancelled, rspLocal, rspVar, out, impl, wire, answered>>
SetRsp(r) ==
  /\ ipc[r] = "setrsp"
  /\ IF cfg.ht
       THEN /\ rspVar' = [rspVar EXCEPT ![r] = rspLocal[r]]
            /\ ipc' = [ipc EXCEPT ![r] = "cancel"]
            /\ UNCHANGED <<out, hpc>>
       ELSE /\ out' = [out EXCEPT ![r] = rspLocal[r]]
            /\ hpc' = [hpc EXCEPT ![r] = "readpt"]
            /\ ipc' = [ipc EXCEPT ![r] = "end"]
            /\ UNCHANGED rspVar
  /\ UNCHANGED <<cfg, reqs, unread, queue, worker, fired, cancelled, rspLocal, ctxPt, impl, wire, answered>>
Cancel(r) ==
  /\ ipc[r] = "cancel"
  /\ cancelled' = [cancelled EXCEPT ![r] = TRUE]
  /\ ipc' = [ipc EXCEPT ![r] = "end"]
  /\ UNCHANGED <<cfg, reqs, unread, queue, worker, hpc, fired, rspLocal, rspVar, out, ctxPt, impl, wire, answered>>

\* ---- the handle timeout: only a handler that can be slow is ever overtaken by the timer
Fire(r) ==
  /\ cfg.ht /\ hpc[r] = "wait" /\ ~fired[r] /\ ~cancelled[r]
  /\ OverLong(reqs[r], C) \/ Racy(reqs[r], C)
  /\ TimerAfterDecode => ipc[r] # "decode"
  /\ fired' = [fired EXCEPT ![r] = TRUE]
  /\ UNCHANGED <<cfg, reqs, unread, queue, worker, hpc, ipc, cancelled, rspLocal, rspVar, out, ctxPt, impl, wire, answered>>
Wake(r) ==
  /\ hpc[r] = "wait" /\ (fired[r] \/ cancelled[r])
  /\ hpc' = [hpc EXCEPT ![r] = "check"]
  /\ UNCHANGED <<cfg, reqs, unread, queue, worker, ipc, fired, cancelled, rspLocal, rspVar, out, ctxPt, impl, wire, answered>>
TimeoutReply(r) ==
  IF KF_BlankTimeoutReply THEN [id |-> reqs[r].id, ver |-> 0, pt |-> 0, ret |-> One4, desc |-> <<116>>]
  ELSE Built(r, One4, <<116>>)
CheckRsp(r) ==
  /\ hpc[r] = "check"
  /\ out' = [out EXCEPT ![r] = IF rspVar[r] = Nil THEN TimeoutReply(r) ELSE rspVar[r]]
  /\ hpc' = [hpc EXCEPT ![r] = "readpt"]
  /\ UNCHANGED <<cfg, reqs, unread, queue, worker, ipc, fired, cancelled, rspLocal, rspVar, ctxPt, impl, wire, answered>>
\* ---- the handler: packet type from the Current decides whether anything is written
ReadPt(r) ==
  /\ hpc[r] = "readpt"
  /\ IF ctxPt[r] = ONEWAY THEN hpc' = [hpc EXCEPT ![r] = "done"] /\ Finish(r)
                          ELSE hpc' = [hpc EXCEPT ![r] = "write"] /\ worker' = worker
  /\ UNCHANGED <<cfg, reqs, unread, queue, ipc, fired, cancelled, rspLocal, rspVar, out, ctxPt, impl, wire, answered>>
OnWire(y) == IF KF_TupDropsResult /\ y.ver = TUPV THEN [y EXCEPT !.ret = Zero4, !.desc = <<>>] ELSE y
Write(r) ==
  /\ hpc[r] = "write"
  /\ wire' = [wire EXCEPT ![reqs[r].conn] = Append(@, OnWire(out[r]))]
  /\ answered' = [answered EXCEPT ![r] = @ + 1]
  /\ hpc' = [hpc EXCEPT ![r] = "done"]
  /\ Finish(r)
  /\ UNCHANGED <<cfg, reqs, unread, queue, ipc, fired, cancelled, rspLocal, rspVar, out, ctxPt, impl>>

Quiescent == \A r \in R : hpc[r] = "done" /\ ipc[r] = "end"
Done == Quiescent /\ UNCHANGED vars
Next ==
  \/ \E c \in 1..NConn : Recv(c)
  \/ \E w \in DOMAIN worker : Pick(w)
  \/ \E r \in R : Go(r) \/ Start(r) \/ Decode(r) \/ Check(r) \/ Exec(r) \/ SetPt(r) \/ SetRsp(r) \/ Cancel(r)
                  \/ Fire(r) \/ Wake(r) \/ CheckRsp(r) \/ ReadPt(r) \/ Write(r)
  \/ Done
Spec == Init /\ [][Next]_vars /\ WF_vars(Next)

\* ------------------------------------------------------------------ properties
RepliesOf(r) == SelectSeq(wire[reqs[r].conn], LAMBDA y : y.id = reqs[r].id)
AtMostOnce == \A r \in R : answered[r] <= 1
\* every reply on a connection answers a request of that connection
NoStrayReply == \A c \in 1..NConn : \A i \in 1..Len(wire[c]) : \E r \in R : reqs[r].conn = c /\ reqs[r].id = wire[c][i].id
\* whatever has been written so far breaks no clause other than "not answered yet"
SafeSoFar == \A r \in R : Faults(reqs[r], C, RepliesOf(r), impl[r]) \subseteq {"no-reply"}
\* the same, clause by clause (the deviation configurations name the clause they break)
Never(fault) == \A r \in R : fault \notin Faults(reqs[r], C, RepliesOf(r), impl[r])
IdentityEchoed == Never("version-not-echoed") /\ Never("packet-type-not-echoed")
OnewaySilent == Never("oneway-answered")
ResultConveyed == Never("wrong-result")
NotRunWhenForbidden == Never("executed-but-must-not")
\* when everything has come to rest every request has exactly what the relation prescribes
AtQuiescence == Quiescent => \A r \in R : Resp(reqs[r], C, RepliesOf(r), impl[r]) /\ answered[r] = NReplies(reqs[r])
ExecutedAtMostOnce == \A r \in R : impl[r] <= 1
Terminates == <>[]Quiescent
=============================================================================
