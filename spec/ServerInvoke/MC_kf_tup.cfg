CONSTANTS NReq = 1  NConn = 1  Shapes <- ShapesSingle  Pools = {0, 1}  HTs = {FALSE, TRUE}
  TimerAfterDecode = TRUE  KF_BlankTimeoutReply = FALSE  KF_PacketTypeSetLate = FALSE  KF_TupDropsResult = TRUE
  Filts = {"none", "legacy", "prepost", "mw", "all"}  VG_PingThroughFilter = FALSE
SPECIFICATION Spec
INVARIANTS ResultConveyed
