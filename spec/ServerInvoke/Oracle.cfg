INIT Init
NEXT Next
