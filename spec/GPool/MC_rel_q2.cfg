CONSTANTS N = 2  Q = 2  Jobs <- JobSet4  DoRelease = TRUE
SPECIFICATION Spec
INVARIANTS TypeOK AtMostOnce BoundedParallel ReleaseAfterJobs
PROPERTIES BlockedOnlyWhenFull NoStartAfterRelease ReleaseReturns
CHECK_DEADLOCK FALSE
