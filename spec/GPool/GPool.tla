---------------------------- MODULE GPool ----------------------------
(* Model of tars/util/gpool (Pool, Worker, dispatch, Release).                          *)
(* One action per channel operation; unbuffered operations are rendezvous actions.      *)
(* Go channel semantics modelled explicitly: a sender that finds the JobQueue full       *)
(* parks in the channel's FIFO send queue and is admitted, in order, by the receive      *)
(* that frees a slot (same atomic step, as in the Go runtime).                           *)
(*                                                                                       *)
(* Harness-visible steps (logged by the conformance harness, no hook in /repo needed):   *)
(*   SubmitCall(j)  SubmitRet(j)  JobStart(j)  JobEnd(j)  ReleaseCall  ReleaseRet        *)
(* Silent steps (inside the pool): Enq, WReg, DTakeJob, DTakeWorker, DHand, RSend,       *)
(*   DCollect, DStopSend, WAck, DReply.                                                  *)
EXTENDS Integers, Sequences, FiniteSets, TLC
CONSTANTS N,          \* number of workers (cap(WorkerQueue))
          Q,          \* JobQueue capacity; 0 = unbuffered
          Jobs,       \* set of job ids
          DoRelease   \* whether Release may be called
Workers == 1..N
VARIABLES jobQ,      \* buffered JobQueue contents
          sendq,     \* submitters parked on a full JobQueue, FIFO
          idleQ,     \* buffered WorkerQueue: workers that registered themselves
          wpc, wjob, \* worker pc: "reg" | "wait" | "run" | "running" | "ack" | "dead"
          dpc, djob, dw, dcnt, \* dispatcher
          rpc,       \* releaser pc: "idle" | "calling" | "sent" | "acked" | "returned"
          spc,       \* per job: "new" | "calling" | "blocked" | "queued" | "returned"
          exec       \* ghost: how many times each job was started
vars == <<jobQ, sendq, idleQ, wpc, wjob, dpc, djob, dw, dcnt, rpc, spc, exec>>

Init == /\ jobQ = <<>> /\ sendq = <<>> /\ idleQ = <<>>
        /\ wpc = [w \in Workers |-> "reg"] /\ wjob = [w \in Workers |-> 0]
        /\ dpc = "sel" /\ djob = 0 /\ dw = 0 /\ dcnt = 0
        /\ rpc = "idle" /\ spc = [j \in Jobs |-> "new"] /\ exec = [j \in Jobs |-> 0]

\* ---------------------------------------------------------------- submitters
\* harness: the goroutine is about to execute  pool.JobQueue <- job
SubmitCall(j) == /\ spc[j] = "new" /\ spc' = [spc EXCEPT ![j] = "calling"]
                 /\ UNCHANGED <<jobQ, sendq, idleQ, wpc, wjob, dpc, djob, dw, dcnt, rpc, exec>>
\* the channel send itself: immediate if there is room (or a waiting receiver), else park
Enq(j) ==
  /\ spc[j] = "calling"
  /\ IF Q > 0 /\ Len(jobQ) < Q /\ sendq = <<>>
       THEN jobQ' = Append(jobQ, j) /\ spc' = [spc EXCEPT ![j] = "queued"] /\ UNCHANGED <<sendq, dpc, djob>>
     ELSE IF Q = 0 /\ dpc = "sel" /\ sendq = <<>>
       THEN dpc' = "needW" /\ djob' = j /\ spc' = [spc EXCEPT ![j] = "queued"] /\ UNCHANGED <<jobQ, sendq>>
     ELSE sendq' = Append(sendq, j) /\ spc' = [spc EXCEPT ![j] = "blocked"] /\ UNCHANGED <<jobQ, dpc, djob>>
  /\ UNCHANGED <<idleQ, wpc, wjob, dw, dcnt, rpc, exec>>
\* harness: the send returned
SubmitRet(j) == /\ spc[j] = "queued" /\ spc' = [spc EXCEPT ![j] = "returned"]
                /\ UNCHANGED <<jobQ, sendq, idleQ, wpc, wjob, dpc, djob, dw, dcnt, rpc, exec>>

\* ---------------------------------------------------------------- workers
WReg(w) == /\ wpc[w] = "reg" /\ Len(idleQ) < N
           /\ idleQ' = Append(idleQ, w) /\ wpc' = [wpc EXCEPT ![w] = "wait"]
           /\ UNCHANGED <<jobQ, sendq, wjob, dpc, djob, dw, dcnt, rpc, spc, exec>>
\* harness-visible: the job function begins / ends
JobStart(j) == \E w \in Workers :
           /\ wpc[w] = "run" /\ wjob[w] = j
           /\ wpc' = [wpc EXCEPT ![w] = "running"] /\ exec' = [exec EXCEPT ![j] = @ + 1]
           /\ UNCHANGED <<jobQ, sendq, idleQ, wjob, dpc, djob, dw, dcnt, rpc, spc>>
JobEnd(j) == \E w \in Workers :
           /\ wpc[w] = "running" /\ wjob[w] = j
           /\ wpc' = [wpc EXCEPT ![w] = "reg"] /\ wjob' = [wjob EXCEPT ![w] = 0]
           /\ UNCHANGED <<jobQ, sendq, idleQ, dpc, djob, dw, dcnt, rpc, spc, exec>>

\* ---------------------------------------------------------------- dispatcher
\* case job := <-p.JobQueue   (admits the longest-parked sender into the freed slot)
DTakeJob ==
  /\ dpc = "sel"
  /\ IF Q > 0
       THEN /\ jobQ # <<>>
            /\ djob' = Head(jobQ)
            /\ IF sendq # <<>>
                 THEN /\ jobQ' = Append(Tail(jobQ), Head(sendq)) /\ sendq' = Tail(sendq)
                      /\ spc' = [spc EXCEPT ![Head(sendq)] = "queued"]
                 ELSE jobQ' = Tail(jobQ) /\ UNCHANGED <<sendq, spc>>
       ELSE /\ sendq # <<>>
            /\ djob' = Head(sendq) /\ sendq' = Tail(sendq)
            /\ spc' = [spc EXCEPT ![Head(sendq)] = "queued"] /\ UNCHANGED jobQ
  /\ dpc' = "needW"
  /\ UNCHANGED <<idleQ, wpc, wjob, dw, dcnt, rpc, exec>>
\* worker := <-p.WorkerQueue
DTakeWorker == /\ dpc = "needW" /\ idleQ # <<>>
               /\ dw' = Head(idleQ) /\ idleQ' = Tail(idleQ) /\ dpc' = "hand"
               /\ UNCHANGED <<jobQ, sendq, wpc, wjob, djob, dcnt, rpc, spc, exec>>
\* worker.JobChannel <- job   (rendezvous with the worker's select)
DHand == /\ dpc = "hand" /\ wpc[dw] = "wait"
         /\ wpc' = [wpc EXCEPT ![dw] = "run"] /\ wjob' = [wjob EXCEPT ![dw] = djob]
         /\ dpc' = "sel" /\ djob' = 0 /\ dw' = 0
         /\ UNCHANGED <<jobQ, sendq, idleQ, dcnt, rpc, spc, exec>>

\* ---------------------------------------------------------------- release handshake
ReleaseCall == /\ DoRelease /\ rpc = "idle" /\ rpc' = "calling"
               /\ UNCHANGED <<jobQ, sendq, idleQ, wpc, wjob, dpc, djob, dw, dcnt, spc, exec>>
\* p.stop <- {}  rendezvous with the dispatcher's select (either case may be chosen when both are ready)
RSend == /\ rpc = "calling" /\ dpc = "sel"
         /\ rpc' = "sent" /\ dpc' = "collect" /\ dcnt' = 0
         /\ UNCHANGED <<jobQ, sendq, idleQ, wpc, wjob, djob, dw, spc, exec>>
DCollect == /\ dpc = "collect" /\ dcnt < N /\ idleQ # <<>>
            /\ dw' = Head(idleQ) /\ idleQ' = Tail(idleQ) /\ dpc' = "stopsend"
            /\ UNCHANGED <<jobQ, sendq, wpc, wjob, djob, dcnt, rpc, spc, exec>>
DStopSend == /\ dpc = "stopsend" /\ wpc[dw] = "wait"
             /\ wpc' = [wpc EXCEPT ![dw] = "ack"] /\ dpc' = "stopwait"
             /\ UNCHANGED <<jobQ, sendq, idleQ, wjob, djob, dw, dcnt, rpc, spc, exec>>
WAck == /\ dpc = "stopwait" /\ wpc[dw] = "ack"
        /\ wpc' = [wpc EXCEPT ![dw] = "dead"] /\ dcnt' = dcnt + 1 /\ dpc' = "collect" /\ dw' = 0
        /\ UNCHANGED <<jobQ, sendq, idleQ, wjob, djob, rpc, spc, exec>>
DReply == /\ dpc = "collect" /\ dcnt = N /\ rpc = "sent"
          /\ dpc' = "done" /\ rpc' = "acked"
          /\ UNCHANGED <<jobQ, sendq, idleQ, wpc, wjob, djob, dw, dcnt, spc, exec>>
ReleaseRet == /\ rpc = "acked" /\ rpc' = "returned"
              /\ UNCHANGED <<jobQ, sendq, idleQ, wpc, wjob, dpc, djob, dw, dcnt, spc, exec>>

Silent == \/ \E j \in Jobs : Enq(j)
          \/ \E w \in Workers : WReg(w)
          \/ DTakeJob \/ DTakeWorker \/ DHand \/ RSend \/ DCollect \/ DStopSend \/ WAck \/ DReply
Visible == \/ \E j \in Jobs : SubmitCall(j) \/ SubmitRet(j) \/ JobStart(j) \/ JobEnd(j)
           \/ ReleaseCall \/ ReleaseRet
Next == Silent \/ Visible
Fair == /\ \A w \in Workers : WF_vars(WReg(w))
        /\ \A j \in Jobs : WF_vars(Enq(j)) /\ WF_vars(SubmitCall(j)) /\ WF_vars(SubmitRet(j)) /\ WF_vars(JobStart(j)) /\ WF_vars(JobEnd(j))
        /\ WF_vars(DTakeJob) /\ WF_vars(DTakeWorker) /\ WF_vars(DHand)
        /\ WF_vars(RSend) /\ WF_vars(DCollect) /\ WF_vars(DStopSend) /\ WF_vars(WAck) /\ WF_vars(DReply) /\ WF_vars(ReleaseRet)
Spec == Init /\ [][Next]_vars /\ Fair

\* ---------------------------------------------------------------- properties (C19)
Running == {w \in Workers : wpc[w] \in {"run", "running"}}
TypeOK == /\ Len(jobQ) <= Q /\ Len(idleQ) <= N
          /\ \A w \in Workers : wpc[w] \in {"reg", "wait", "run", "running", "ack", "dead"}
AtMostOnce == \A j \in Jobs : exec[j] <= 1
BoundedParallel == Cardinality(Running) <= N
\* a submitter may only *become* blocked when the queue is full (Q > 0) or nobody is receiving (Q = 0)
BlockedOnlyWhenFull ==
  [][\A j \in Jobs : (spc[j] # "blocked" /\ spc'[j] = "blocked") =>
        (IF Q > 0 THEN Len(jobQ) = Q ELSE (dpc # "sel" \/ sendq # <<>>))]_vars
\* and it does not stay blocked once the dispatcher takes a job while it is first in line (checked through DTakeJob)
ReleaseAfterJobs == rpc \in {"acked", "returned"} => (Running = {} /\ \A w \in Workers : wpc[w] = "dead")
NoStartAfterRelease == [][(rpc \in {"acked", "returned"}) => (\A j \in Jobs : exec'[j] = exec[j])]_vars
\* liveness, without release: everything submitted is eventually run
AllRun == <>(\A j \in Jobs : exec[j] = 1)
ReleaseReturns == (rpc = "calling") ~> (rpc = "returned")
=======================================================================
