CONSTANTS N = 2  Q = 1  Jobs <- JobSet3  DoRelease = TRUE
SPECIFICATION Spec
INVARIANTS TypeOK AtMostOnce BoundedParallel ReleaseAfterJobs
PROPERTIES BlockedOnlyWhenFull NoStartAfterRelease ReleaseReturns
CHECK_DEADLOCK FALSE
