CONSTANTS N = 2  Q = 0  Jobs <- JobSet3  DoRelease = FALSE
SPECIFICATION Spec
INVARIANTS TypeOK AtMostOnce BoundedParallel ReleaseAfterJobs
PROPERTIES BlockedOnlyWhenFull NoStartAfterRelease AllRun
CHECK_DEADLOCK FALSE
