CONSTANTS N = 2  Q = 1  Jobs <- JobSet4  DoRelease = FALSE
SPECIFICATION Spec
INVARIANTS TypeOK AtMostOnce BoundedParallel ReleaseAfterJobs
PROPERTIES BlockedOnlyWhenFull NoStartAfterRelease AllRun
CHECK_DEADLOCK FALSE
