CONSTANTS N = 1  Q = 0  Jobs <- JobSet3  DoRelease = TRUE
SPECIFICATION Spec
INVARIANTS TypeOK AtMostOnce BoundedParallel ReleaseAfterJobs
PROPERTIES BlockedOnlyWhenFull NoStartAfterRelease ReleaseReturns
CHECK_DEADLOCK FALSE
