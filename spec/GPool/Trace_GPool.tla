---- MODULE Trace_GPool ----
(* Trace validation: events recorded from the real gpool (harness-visible steps only) must be    *)
(* explainable by GPool with its silent steps interleaved.  Many traces are concatenated,        *)
(* separated by "Reset" events.                                                                  *)
EXTENDS GPool, Json
VARIABLE l
Trace == ndJsonDeserialize("trace.ndjson")
tvars == <<vars, l>>
TraceInit == Init /\ l = 1
IsEvent(e) == l <= Len(Trace) /\ Trace[l].e = e /\ l' = l + 1
TSubmitCall == IsEvent("SubmitCall") /\ SubmitCall(Trace[l].j)
TSubmitRet == IsEvent("SubmitRet") /\ SubmitRet(Trace[l].j)
TJobStart == IsEvent("JobStart") /\ JobStart(Trace[l].j)
TJobEnd == IsEvent("JobEnd") /\ JobEnd(Trace[l].j)
TReleaseCall == IsEvent("ReleaseCall") /\ ReleaseCall
TReleaseRet == IsEvent("ReleaseRet") /\ ReleaseRet
\* end of one recorded run (the harness waited for quiescence): without a release every submitted job ran
TReset == /\ IsEvent("Reset")
          /\ (rpc = "idle" => \A j \in Jobs : spc[j] # "new" => (spc[j] = "returned" /\ exec[j] = 1))
          /\ \A w \in Workers : wpc[w] # "running"
          /\ jobQ' = <<>> /\ sendq' = <<>> /\ idleQ' = <<>>
          /\ wpc' = [w \in Workers |-> "reg"] /\ wjob' = [w \in Workers |-> 0]
          /\ dpc' = "sel" /\ djob' = 0 /\ dw' = 0 /\ dcnt' = 0
          /\ rpc' = "idle" /\ spc' = [j \in Jobs |-> "new"] /\ exec' = [j \in Jobs |-> 0]
TSilent == Silent /\ UNCHANGED l
TraceNext == TSubmitCall \/ TSubmitRet \/ TJobStart \/ TJobEnd \/ TReleaseCall \/ TReleaseRet \/ TReset \/ TSilent
TraceSpec == TraceInit /\ [][TraceNext]_tvars
ASSUME TLCSet(1, 0)
HighWater == (IF l > TLCGet(1) THEN TLCSet(1, l) ELSE TRUE)
TraceAccepted == /\ PrintT(<<"HWM", TLCGet(1), Len(Trace)>>)
                 /\ TLCGet(1) = Len(Trace) + 1
====
