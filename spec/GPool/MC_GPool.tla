---- MODULE MC_GPool ----
EXTENDS GPool
JobSet3 == {1, 2, 3}
JobSet4 == {1, 2, 3, 4}
====
