---- MODULE Gen_GPool ----
(* Behaviour generation for directed replay.  Maximal progress: the pool's own steps and the     *)
(* steps the harness cannot hold back (a send returning, a handed job starting, Release          *)
(* returning) run to quiescence; then one controllable action is taken and recorded together     *)
(* with the observation the model predicts at that quiescent point.                              *)
EXTENDS GPool, Json
CONSTANT D
VARIABLE hist
Eager == Silent \/ (\E j \in Jobs : SubmitRet(j) \/ JobStart(j)) \/ ReleaseRet
SetToSeq(S) == LET RECURSIVE F(_) F(T) == IF T = {} THEN <<>> ELSE LET x == CHOOSE y \in T : \A z \in T : y <= z IN <<x>> \o F(T \ {x}) IN F(S)
Obs == [started |-> SetToSeq({j \in Jobs : exec[j] > 0}),
        returned |-> SetToSeq({j \in Jobs : spc[j] = "returned"}),
        blocked |-> SetToSeq({j \in Jobs : spc[j] = "blocked"}),
        rel |-> (rpc = "returned")]
Rec(a, j) == hist' = Append(hist, [a |-> a, j |-> j, obs |-> Obs])
Ctl == \/ \E j \in Jobs : SubmitCall(j) /\ rpc = "idle" /\ Rec("Submit", j)
       \/ \E j \in Jobs : JobEnd(j) /\ Rec("Finish", j)
       \/ /\ ReleaseCall /\ jobQ = <<>> /\ sendq = <<>> /\ dpc = "sel" /\ djob = 0
          /\ \A j \in Jobs : spc[j] \in {"new", "returned"}
          /\ Rec("Release", 0)
GenNext == IF ENABLED Eager THEN Eager /\ UNCHANGED hist
           ELSE IF ENABLED Ctl THEN Ctl ELSE UNCHANGED <<vars, hist>>   \* finished early: idle up to depth D
GenInit == Init /\ hist = <<>>
GenSpec == GenInit /\ [][GenNext]_<<vars, hist>>
\* emitted when the behaviour reaches depth D (simulation mode); the final observation is appended if the cut falls on a quiescent state
Emit == TLCGet("level") < D \/ PrintT(ToJson([n |-> N, q |-> Q, steps |-> IF ENABLED Eager THEN hist ELSE Append(hist, [a |-> "End", j |-> 0, obs |-> Obs])]))
====
