---------------------------- MODULE MC_Endpoint ----------------------------
(* Exhaustive small scope for the theorems of Endpoint: every protocol word, every sequence of    *)
(* at most MaxLen option tokens over a small but pointed value set (defaults, negatives, the      *)
(* weight boundaries -1 / 100 / 101, repeated options), every set id.  One state per input; the   *)
(* theorems are invariants, "an option touches only its own letter" is an action property.        *)
EXTENDS Endpoint
CONSTANT MaxLen
VARIABLES proto, opts, sid
vars == <<proto, opts, sid>>

Tokens ==
    {Tok("h", s, 0) : s \in {"h1", "10.0.0.2"}} \cup {Tok("b", s, 0) : s \in {"b1", "h1"}} \cup
    {Tok("p", "", n) : n \in {0, 80, -1}}       \cup {Tok("t", "", n) : n \in {0, 3000, 60000}} \cup
    {Tok("g", "", n) : n \in {0, 7}}            \cup {Tok("q", "", n) : n \in {0, -3}} \cup
    {Tok("w", "", n) : n \in {-1, 0, 55, 100, 101}} \cup {Tok("v", "", n) : n \in {0, 1, -1}} \cup
    {Tok("e", "", n) : n \in {0, 1}}
SetIds == {"", "s.a.1"}

Init == proto \in Protos /\ sid \in SetIds /\ opts = <<>>
Next == /\ Len(opts) < MaxLen
        /\ \E tok \in Tokens : opts' = Append(opts, tok)
        /\ UNCHANGED <<proto, sid>>
Spec == Init /\ [][Next]_vars

E == WithSet(Parse(proto, opts), sid)

TypeOK == /\ E.host \in STRING /\ E.bind \in STRING /\ E.setid \in STRING
          /\ \A f \in {"port", "timeout", "grid", "qos", "weight", "wtype", "auth"} : E[f] \in Int
          /\ E.kind \in Kinds
InvDefaults == opts = <<>> =>
    Parse(proto, opts) = [host |-> "", port |-> 0, timeout |-> 3000, kind |-> KindOf(proto), grid |-> 0, qos |-> 0,
                          weight |-> -1, wtype |-> 0, auth |-> 0, setid |-> "", bind |-> ""]
InvKind == /\ (proto = "tcp" => E.kind = TCP) /\ (proto = "udp" => E.kind = UDP) /\ (proto = "ssl" => E.kind = SSL)
           /\ NetOf(E.kind) = (IF proto = "udp" THEN "udp" ELSE "tcp")
InvRoundTrip     == RoundTrip(E)
InvKeyStable     == KeyStable(E)
InvTarsRoundTrip == TarsRoundTrip(ToTars(E))
InvLastWins      == LastWins(opts)
InvOrderFree     == OrderFree(opts)
InvWeightRange   == WeightRange(E)
\* the direct description (text) and the registry description (structure filled with the same values) get one key
InvKeyDirectVsRegistry ==
    LET r == Fold(opts)
        F == [host |-> r.h, port |-> r.p, timeout |-> r.t, istcp |-> KindOf(proto), grid |-> r.g, qos |-> r.q,
              weight |-> NormWeight(r.w, r.v), wtype |-> r.v, auth |-> r.e, setid |-> sid]
    IN  KeyText(FromTars(F)) = KeyText(E) /\ Key(FromTars(F)) = Key(E)
InvKeySound == Len(opts) > 0 => KeySound(E, WithSet(Parse(proto, SubSeq(opts, 1, Len(opts) - 1)), sid))
InvBindApart == BindApart(proto, opts)
\* appending "-l value" changes the folded record at letter l only
StepLocal == [][\A l \in Letters : l # opts'[Len(opts')].o => Fold(opts')[l] = Fold(opts)[l]]_vars
=============================================================================
