------------------------------ MODULE Endpoint ------------------------------
(* C18 — endpoint strings.  Independent reference for                                            *)
(*   * the textual form   <proto> -h host -p port -t timeout [-g -q -w -v -e -b ...]  (any order) *)
(*   * the conversion to and from the registry structure (EndpointF)                              *)
(*   * the adapter cache key.                                                                     *)
(* A text is abstracted as a protocol word and a sequence of option tokens; blanks are the        *)
(* renderer's business (harness), the reference only sees tokens.  Parse is a left fold of the    *)
(* tokens over the record of documented defaults, followed by the weight normalisation.           *)
(* Numbers are plain integers (kept small by the configurations: TLC integers are 32 bit).        *)
EXTENDS Integers, Sequences, FiniteSets, TLC

\* ---------------------------------------------------------------- vocabulary
UDP == 0
TCP == 1
SSL == 2
Kinds  == {UDP, TCP, SSL}
Protos == {"tcp", "udp", "ssl"}

\* transport kind named by the protocol word, and the network the kind runs on
KindOf(proto) == CASE proto = "tcp" -> TCP [] proto = "ssl" -> SSL [] proto = "udp" -> UDP
NetOf(kind)   == IF kind = UDP THEN "udp" ELSE "tcp"

StrLetters == {"h", "b"}                                \* host, bind
IntLetters == {"p", "t", "g", "q", "w", "v", "e"}       \* port timeout grid qos weight weightType authType
Letters    == StrLetters \cup IntLetters

\* an option token "-o value": s carries the value of a string option, n of an integer option
Tok(o, s, n) == [o |-> o, s |-> s, n |-> n]
TokVal(t)    == IF t.o \in StrLetters THEN t.s ELSE t.n

\* documented defaults, indexed by option letter
Opts0 == [h |-> "", p |-> 0, t |-> 3000, g |-> 0, q |-> 0, w |-> -1, v |-> 0, e |-> 0, b |-> ""]

\* ---------------------------------------------------------------- Parse
Step(r, tok) == [r EXCEPT ![tok.o] = TokVal(tok)]

RECURSIVE FoldFrom(_, _, _)
FoldFrom(r, opts, i) == IF i > Len(opts) THEN r ELSE FoldFrom(Step(r, opts[i]), opts, i + 1)
Fold(opts) == FoldFrom(Opts0, opts, 1)

\* static weights live in 0..100; "unset" (-1) and anything above mean full weight
NormWeight(w, v) == IF v # 0 /\ (w = -1 \/ w > 100) THEN 100 ELSE w

EndpointOf(kind, r) ==
    [host |-> r.h, port |-> r.p, timeout |-> r.t, kind |-> kind, grid |-> r.g, qos |-> r.q,
     weight |-> NormWeight(r.w, r.v), wtype |-> r.v, auth |-> r.e, setid |-> "", bind |-> r.b]

Parse(proto, opts) == EndpointOf(KindOf(proto), Fold(opts))

\* the ten fields the registry conversion has to preserve
Ten == {"host", "port", "timeout", "kind", "grid", "qos", "weight", "wtype", "auth", "setid"}
\* the fields Parse has to deliver (the ten minus the set id, which no option carries, plus bind)
ParseFields == (Ten \ {"setid"}) \cup {"bind"}

WithSet(e, sid) == [e EXCEPT !.setid = sid]

\* ---------------------------------------------------------------- registry structure
ToTars(e) ==
    [host |-> e.host, port |-> e.port, timeout |-> e.timeout, istcp |-> e.kind, grid |-> e.grid,
     qos |-> e.qos, weight |-> e.weight, wtype |-> e.wtype, auth |-> e.auth, setid |-> e.setid]

FromTars(f) ==
    [host |-> f.host, port |-> f.port, timeout |-> f.timeout, kind |-> f.istcp, grid |-> f.grid,
     qos |-> f.qos, weight |-> f.weight, wtype |-> f.wtype, auth |-> f.auth, setid |-> f.setid,
     bind |-> ""]

\* ---------------------------------------------------------------- cache key
\* the adapter cache is keyed by where to connect: network, host, port, and the timeout
Key(e)     == <<NetOf(e.kind), e.host, e.port, e.timeout>>
\* its canonical text (the "readable string" of an endpoint)
KeyText(e) == NetOf(e.kind) \o " -h " \o e.host \o " -p " \o ToString(e.port) \o " -t " \o ToString(e.timeout)
\* what "the same endpoint" means for the key clause: agreement on the ten fields
TenTuple(e) == <<e.host, e.port, e.timeout, e.kind, e.grid, e.qos, e.weight, e.wtype, e.auth, e.setid>>

\* ---------------------------------------------------------------- the sites that use a parsed endpoint
\* A direct object address is a list of texts; its endpoint manager holds Parse of every member, unchanged.
DirectList(parts) == [i \in DOMAIN parts |-> Parse(parts[i][1], parts[i][2])]
\* A server adapter's endpoint line: the application stores Parse of the line (Stored), announces ToTars of what it
\* stores to the registry (Announced), and listens on the bind address if one is given, else on the host.  The bind
\* address is a field of its own: it is no part of the endpoint's identity (host, key, announcement).
Stored(proto, opts)    == Parse(proto, opts)
Announced(proto, opts) == ToTars(Stored(proto, opts))
ListenAddr(e)          == <<IF e.bind # "" THEN e.bind ELSE e.host, e.port>>
WithoutBind(opts)      == SelectSeq(opts, LAMBDA t : t.o # "b")

\* ---------------------------------------------------------------- theorems (checked by TLC, MC_Endpoint)
Agree(a, b, fields) == \A f \in fields : a[f] = b[f]

\* T1 round trip through the registry structure preserves the ten fields
RoundTrip(e)   == Agree(FromTars(ToTars(e)), e, Ten)
\* T2 the key does not change on the way through the registry
KeyStable(e)   == /\ Key(FromTars(ToTars(e))) = Key(e)
                  /\ KeyText(FromTars(ToTars(e))) = KeyText(e)
\* T3 registry -> endpoint -> registry is the identity
TarsRoundTrip(f) == ToTars(FromTars(f)) = f
\* T4 the fold is "last occurrence wins, otherwise the default"
LastOf(opts, l) == LET I == {i \in DOMAIN opts : opts[i].o = l}
                   IN  IF I = {} THEN Opts0[l] ELSE TokVal(opts[CHOOSE i \in I : \A j \in I : j <= i])
LastWins(opts)  == \A l \in Letters : Fold(opts)[l] = LastOf(opts, l)
\* T5 options with different letters commute (so any order of distinct options gives the same endpoint)
SwapAt(opts, i) == [k \in DOMAIN opts |-> IF k = i THEN opts[i + 1] ELSE IF k = i + 1 THEN opts[i] ELSE opts[k]]
OrderFree(opts) == \A i \in 1 .. Len(opts) - 1 : opts[i].o # opts[i + 1].o => Fold(SwapAt(opts, i)) = Fold(opts)
\* T6 with a weight type the weight is a usable share: never "unset", never above 100
WeightRange(e)  == e.wtype # 0 => (e.weight # -1 /\ e.weight <= 100)
\* T8 the bind address changes nothing but itself: the ten fields, the key and the announcement are those of the
\*    same text without -b; a client reading the announcement obtains the key of the stored endpoint
BindApart(proto, opts) ==
    LET e == Stored(proto, opts) e0 == Stored(proto, WithoutBind(opts)) IN
    /\ Agree(e, e0, Ten) /\ Key(e) = Key(e0) /\ KeyText(e) = KeyText(e0)
    /\ Announced(proto, opts) = Announced(proto, WithoutBind(opts))
    /\ KeyText(FromTars(Announced(proto, opts))) = KeyText(e)
    /\ ListenAddr(e)[2] = e.port /\ (e.bind = "" => ListenAddr(e)[1] = e.host)
\* T7 equal keys mean the same place to connect to (the key text is injective on Key)
KeySound(e1, e2) == (KeyText(e1) = KeyText(e2)) <=> (Key(e1) = Key(e2))
=============================================================================
