SPECIFICATION Spec
CONSTANT MaxLen = 4
CHECK_DEADLOCK FALSE
INVARIANTS TypeOK InvDefaults InvKind InvRoundTrip InvKeyStable InvTarsRoundTrip InvLastWins InvOrderFree InvWeightRange InvKeyDirectVsRegistry InvKeySound InvBindApart
PROPERTY StepLocal
