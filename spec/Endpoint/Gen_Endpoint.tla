---------------------------- MODULE Gen_Endpoint ----------------------------
(* Enumeration of the implementation tests for C18 (binding B3, direction spec -> code).          *)
(* Every case is an abstract input (protocol word, option tokens, set id) together with the       *)
(* endpoint the reference expects; the harness renders the tokens as text, runs the real code,    *)
(* and Oracle_Endpoint judges what it recorded.  Written to cases.ndjson by one ASSUME.           *)
(*   exh   every token sequence of length <= ExhLen over the full value set (repeats included),   *)
(*         under every protocol word if ExhProtos, else the protocol word cycles                  *)
(*   perm  every order of every subset of <= PermLen distinct options, two value assignments      *)
(*   rand  seeded (TLC -seed): random subsets in random order with random values, and random      *)
(*         long sequences with repeated options                                                   *)
(*   bind  host and the optional bind address: -b absent / equal to -h / different from it, host   *)
(*         and bind names in mixed case, both orders (the sites that USE a parsed endpoint --      *)
(*         the endpoint manager of a direct address, the adapters of a server configuration --     *)
(*         must see the endpoint the text names, not one rewritten from its bind address or case)  *)
(*   conv  endpoint records for the conversion round trip (all kinds, set ids)                    *)
EXTENDS Endpoint, Json, Randomization, SequencesExt
CONSTANTS ExhLen, ExhProtos, PermLen, NRand, NConv
VARIABLE x

LSeq == <<"h", "p", "t", "g", "q", "w", "v", "e", "b">>
NL   == Len(LSeq)
StrV == [h |-> <<"h1", "127.0.0.1", "Node7.DC-East.example", "::1">>, b |-> <<"Bind-1", "0.0.0.0", "127.0.0.1">>]
IntV == [p |-> <<80, 0, 1, 19386, 65535, -1>>,
         t |-> <<60000, 0, 1, 3000, -1>>,
         g |-> <<1, 0, -1, 10>>,
         q |-> <<10, 0, 1, -5>>,
         w |-> <<50, -1, 0, 1, 100, 101, -2, 1000>>,
         v |-> <<1, 0, 2, -1>>,
         e |-> <<1, 0, 2, -1>>]
SidV == <<"", "s.a.1", "mtt.sz.*">>
PSeq == <<"tcp", "udp", "ssl">>

NVals(l)   == IF l \in StrLetters THEN Len(StrV[l]) ELSE Len(IntV[l])
\* k-th value of letter l, k taken modulo the number of values (k >= 0)
TokOf(l, k) == IF l \in StrLetters THEN Tok(l, StrV[l][1 + (k % NVals(l))], 0)
                                   ELSE Tok(l, "", IntV[l][1 + (k % NVals(l))])
AllTokens == UNION {{TokOf(l, k) : k \in 0 .. NVals(l) - 1} : l \in Letters}
TSeq      == SetToSeq(AllTokens)
NT        == Len(TSeq)

\* ---- exh: all token sequences up to ExhLen, every protocol word
ExhOpts == UNION {[1 .. n -> AllTokens] : n \in 0 .. ExhLen}

\* ---- perm: injective letter sequences up to PermLen; values by assignment a and position
Inj(s)   == \A i, j \in DOMAIN s : i # j => s[i] # s[j]
PermLs   == UNION {{s \in [1 .. n -> 1 .. NL] : Inj(s)} : n \in 0 .. PermLen}
PermOpts == {[i \in DOMAIN s |-> TokOf(LSeq[s[i]], a * (i + s[i]))] : s \in PermLs, a \in {0, 1}}

\* ---- bind: every host with no bind / every bind (one of them equal to a host), bind before and after the host
HTok(i) == Tok("h", StrV.h[i], 0)
BTok(j) == Tok("b", StrV.b[j], 0)
BindOpts == {<<HTok(i), Tok("p", "", 19386)>> : i \in DOMAIN StrV.h}
            \cup {<<HTok(i), BTok(j), Tok("p", "", 19386), Tok("t", "", 60000)>> : i \in DOMAIN StrV.h, j \in DOMAIN StrV.b}
            \cup {<<BTok(j), Tok("p", "", 80), HTok(i)>> : i \in DOMAIN StrV.h, j \in DOMAIN StrV.b}
            \cup {<<BTok(j), Tok("p", "", 80)>> : j \in DOMAIN StrV.b}

\* ---- rand (a): a random priority per letter (below 8: option absent) orders a random subset; random values
Prio   == RandomSubset(NRand, [(1 .. NL) \X {1, 2} -> 0 .. 39])
Before(f, a, b) == f[<<a, 1>>] < f[<<b, 1>>] \/ (f[<<a, 1>>] = f[<<b, 1>>] /\ a < b)
RandSubOpts == {LET ls == SetToSortSeq({l \in 1 .. NL : f[<<l, 1>>] >= 8}, LAMBDA a, b : Before(f, a, b))
                IN  [i \in DOMAIN ls |-> TokOf(LSeq[ls[i]], f[<<ls[i], 2>>])] : f \in Prio}
\* ---- rand (b): long sequences with repeated options
RandLongOpts == UNION {{[i \in 1 .. n |-> TSeq[g[i]]] : g \in RandomSubset(NRand \div 3, [1 .. n -> 1 .. NT])} : n \in {5, 8, 12}}

OptCase(cls, p, o, sid) ==
    LET e == WithSet(Parse(p, o), sid)
    IN  [cls |-> cls, proto |-> p, opts |-> o, sid |-> sid,
         exp |-> [host |-> e.host, port |-> e.port, timeout |-> e.timeout, kind |-> e.kind, grid |-> e.grid,
                  qos |-> e.qos, weight |-> e.weight, wtype |-> e.wtype, auth |-> e.auth, setid |-> e.setid,
                  bind |-> e.bind, net |-> NetOf(e.kind), key |-> KeyText(e)]]

\* set id and protocol vary with the index so that every class sees all of them
OptSeq(cls, S, allProtos) ==
    LET q == SetToSeq(S)
    IN  IF allProtos
        THEN [k \in 1 .. 3 * Len(q) |-> OptCase(cls, PSeq[1 + (k % 3)], q[1 + ((k - 1) \div 3)], SidV[1 + ((k \div 3) % 3)])]
        ELSE [k \in 1 .. Len(q) |-> OptCase(cls, PSeq[1 + (k % 3)], q[k], SidV[1 + ((k \div 3) % 3)])]

\* ---- conv: endpoint records; first a base record per kind and set id with pairwise different values
\*      (a swapped pair of fields shows), then random ones
ConvBase == {[host |-> "h1", port |-> 80, timeout |-> 60000, kind |-> k, grid |-> 7, qos |-> 9, weight |-> 55,
              wtype |-> 2, auth |-> 1, setid |-> s, bind |-> "b1"] : k \in Kinds, s \in {SidV[i] : i \in 1 .. 3}}
ConvRand == RandomSubset(NConv,
             [host : {"", "h1", "127.0.0.1"}, port : {0, 80, 65535, -1}, timeout : {0, 3000, 60000, -1},
              kind : Kinds, grid : {0, 1, -1}, qos : {0, 10, -5}, weight : {-1, 0, 50, 100, 101}, wtype : {0, 1, 2, -1},
              auth : {0, 1, -1}, setid : {SidV[i] : i \in 1 .. 3}, bind : {"", "b1"}])
ConvCase(e) == [cls |-> "conv", e |-> e, exp |-> [FromTars(ToTars(e)) EXCEPT !.bind = e.bind] @@ [net |-> NetOf(e.kind), key |-> KeyText(e)]]
ConvSeq == LET q == SetToSeq(ConvBase \cup ConvRand) IN [k \in DOMAIN q |-> ConvCase(q[k])]

Cases == OptSeq("exh", ExhOpts, ExhProtos) \o OptSeq("perm", PermOpts, TRUE) \o OptSeq("rand", RandSubOpts \cup RandLongOpts, FALSE)
         \o OptSeq("bind", BindOpts, TRUE) \o ConvSeq

ASSUME LET c == Cases IN ndJsonSerialize("cases.ndjson", c) /\ PrintT(<<"CASES", Len(c), "tokens", NT>>)
Init == x = 0
Next == UNCHANGED x
=============================================================================
