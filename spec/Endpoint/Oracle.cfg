INIT Init
NEXT Next
