--------------------------- MODULE Oracle_Endpoint ---------------------------
(* Batch oracle for C18 (binding B3, direction code -> spec).  recs.ndjson holds what the harness  *)
(* observed of the real endpoint package, one record per input; every record is judged here with   *)
(* the reference operators of Endpoint.  The verdict (record ids per failure class) is written to  *)
(* verdict.json.  Classes of records:                                                              *)
(*   opt    a well-formed text rendered from (proto, opts, sid): fields of Parse, round trip       *)
(*          through the registry structure, the cache key on the direct and on the registry path   *)
(*   conv   an endpoint value: round trip through the registry structure                           *)
(*   mal / short / rnd   malformed or arbitrary text: must not crash                               *)
(*   mgr    a direct object address (one text, or a ':'-separated list) given to a servant proxy:   *)
(*          the endpoints its endpoint manager holds are those the texts name, and they carry the   *)
(*          cache keys of the registry's descriptions of the same endpoints (seen through the       *)
(*          manager as well)                                                                        *)
(*   adp    the endpoint line of a server adapter / the administration endpoint, as the             *)
(*          application stores it after reading its configuration: it is the endpoint the line      *)
(*          names (the optional bind address is a field of its own), and its key is the key of the  *)
(*          registry's description and of what the application announces for it                     *)
(* "judged" sets are what the property forbids; "obs" sets are recorded, never judged (the          *)
(* statement is silent there: repeated options, the layout of the registry structure, the key's    *)
(* exact text, the Proto word).                                                                    *)
EXTENDS Endpoint, Json, SequencesExt
VARIABLE x

Recs == ndJsonDeserialize("recs.ndjson")
Idx  == 1 .. Len(Recs)
Id(i) == Recs[i].id

OptIdx  == {i \in Idx : Recs[i].cls = "opt"}
ConvIdx == {i \in Idx : Recs[i].cls = "conv"}
Alive   == {i \in Idx : ~Recs[i].panic}

DistinctLetters(opts) == \A i, j \in DOMAIN opts : i # j => opts[i].o # opts[j].o
\* the reference's endpoint for the case of record r (recomputed here from the tokens)
Exp(r) == WithSet(Parse(r.proto, r.opts), r.sid)

\* ---------------------------------------------------------------- crashes
\* a blank string in the sense of Unicode white space (what a field splitter skips), on UTF-8 bytes
Blank == {9, 10, 11, 12, 13, 32}
Blank3 == {<<225, 154, 128>>, <<226, 128, 168>>, <<226, 128, 169>>, <<226, 128, 175>>, <<226, 129, 159>>, <<227, 128, 128>>}
              \cup {<<226, 128, k>> : k \in 128 .. 138}
RECURSIVE BlankFrom(_, _)
BlankFrom(t, i) == IF i > Len(t) THEN TRUE
                   ELSE IF t[i] \in Blank THEN BlankFrom(t, i + 1)
                   ELSE IF i + 1 <= Len(t) /\ t[i] = 194 /\ t[i + 1] \in {133, 160} THEN BlankFrom(t, i + 2)
                   ELSE IF i + 2 <= Len(t) /\ <<t[i], t[i + 1], t[i + 2]>> \in Blank3 THEN BlankFrom(t, i + 3)
                   ELSE FALSE
InputClass(t) == IF Len(t) < 3 \/ BlankFrom(t, 1) THEN "short-or-blank-string" ELSE "other-string"
Panics == {<<Id(i), Recs[i].cls, IF Recs[i].where = "Parse" THEN InputClass(Recs[i].t) ELSE "in-" \o Recs[i].where>> :
              i \in Idx \ Alive}

\* ---------------------------------------------------------------- Parse delivers the named values
FieldDiff(a, b, fields) == {f \in fields : a[f] # b[f]}
Judged  == {i \in OptIdx \cap Alive : DistinctLetters(Recs[i].opts)}
Repeats == {i \in OptIdx \cap Alive : ~DistinctLetters(Recs[i].opts)}
ParseBad    == UNION {LET r == Recs[i] IN {<<r.id, f>> : f \in FieldDiff(r.p, Exp(r), ParseFields)} : i \in Judged}
ObsRepeat   == UNION {LET r == Recs[i] IN {<<r.id, f>> : f \in FieldDiff(r.p, Exp(r), ParseFields)} : i \in Repeats}

\* ---------------------------------------------------------------- round trip through the registry structure
RoundBad    == UNION {LET r == Recs[i] IN {<<r.id, f>> : f \in FieldDiff(r.b, r.p, Ten)} : i \in OptIdx \cap Alive}
RegRoundBad == UNION {LET r == Recs[i] IN {<<r.id, f>> : f \in FieldDiff(r.rb, r.r, Ten)} : i \in OptIdx \cap Alive}
ConvBad     == UNION {LET r == Recs[i] IN {<<r.id, f>> : f \in FieldDiff(r.b, r.e, Ten)} : i \in ConvIdx \cap Alive}

\* ---------------------------------------------------------------- cache key
\* direct text vs. the same endpoint after a trip through the registry structure
KeyConvBad == {Id(i) : i \in {j \in OptIdx \cap Alive : Recs[j].b.key # Recs[j].p.key}}
\* direct text vs. the registry's description of the endpoint the text names
KeyRegBad  == {Id(i) : i \in {j \in Judged : Recs[j].r.key # Recs[j].p.key}}
ConvKeyBad == {Id(i) : i \in {j \in ConvIdx \cap Alive : Recs[j].b.key # Recs[j].e.key}}
\* all descriptions (orders, spacings) of one endpoint share one key: the relation endpoint -> key is a function
KeyRel      == {<<TenTuple(Exp(Recs[i])), Recs[i].p.key>> : i \in Judged}
KeyDom      == {a[1] : a \in KeyRel}
KeyConflict == IF Cardinality(KeyRel) = Cardinality(KeyDom) THEN {}
               ELSE {a \in KeyRel : \E b \in KeyRel : b[1] = a[1] /\ b[2] # a[2]}
KeyGroupBad == IF KeyConflict = {} THEN {}
               ELSE {Id(i) : i \in {j \in Judged : <<TenTuple(Exp(Recs[j])), Recs[j].p.key>> \in KeyConflict}}

\* ---------------------------------------------------------------- the sites that use a parsed endpoint
MgrIdx == {i \in Idx : Recs[i].cls = "mgr"}
AdpIdx == {i \in Idx : Recs[i].cls = "adp"}
PartExp(p) == WithSet(Parse(p.proto, p.opts), p.sid)
MgrJ   == {i \in MgrIdx \cap Alive : \A k \in DOMAIN Recs[i].parts : DistinctLetters(Recs[i].parts[k].opts)}
AdpJ   == {i \in AdpIdx \cap Alive : DistinctLetters(Recs[i].opts)}
Vals(s, f) == {s[k][f] : k \in DOMAIN s}
\* one endpoint per member of the address list, on either path
MgrCountBad == {Id(i) : i \in {j \in MgrJ : Len(Recs[j].d) # Len(Recs[j].parts) \/ Len(Recs[j].r) # Len(Recs[j].parts)}}
\* the manager's endpoints are the endpoints the texts name (field by field; for a list: the same values occur)
MgrFieldBad == UNION {LET r == Recs[i] e == [k \in DOMAIN r.parts |-> PartExp(r.parts[k])]
                      IN {<<r.id, f>> : f \in {g \in ParseFields : Vals(r.d, g) # Vals(e, g)}} : i \in MgrJ}
\* direct address vs. registry, both as the manager holds them: the same cache keys
MgrKeyBad   == {Id(i) : i \in {j \in MgrJ : Vals(Recs[j].d, "key") # Vals(Recs[j].r, "key")}}
ObsMgrReg   == UNION {LET r == Recs[i] e == [k \in DOMAIN r.parts |-> PartExp(r.parts[k])]
                      IN {<<r.id, f>> : f \in {g \in Ten : Vals(r.r, g) # Vals(e, g)}} : i \in MgrJ}
\* the stored adapter endpoint is the endpoint its line names
AdpFieldBad == UNION {LET r == Recs[i] IN {<<r.id, f>> : f \in FieldDiff(r.a, Parse(r.proto, r.opts), ParseFields)} : i \in AdpJ}
\* its key: that of the registry's description of the endpoint the line names, and that of its own announcement
AdpKeyRegBad == {Id(i) : i \in {j \in AdpJ : Recs[j].a.key # Recs[j].rk}}
AdpKeyAnnBad == {Id(i) : i \in {j \in AdpIdx \cap Alive : Recs[j].b.key # Recs[j].a.key}}
AdpRoundBad  == UNION {LET r == Recs[i] IN {<<r.id, f>> : f \in FieldDiff(r.b, r.a, Ten)} : i \in AdpIdx \cap Alive}
\* where the application listens (Endpoint!ListenAddr): recorded, the statement does not speak about it
ObsListen   == {Id(i) : i \in {j \in AdpJ : Recs[j].hooked /\ Recs[j].site = "adapter" /\
                   LET e == Parse(Recs[j].proto, Recs[j].opts) l == ListenAddr(e) IN Recs[j].addr # l[1] \o ":" \o ToString(l[2])}}
\* corpus facts of the two classes
AdpBindOther == Cardinality({i \in AdpJ : LET e == Parse(Recs[i].proto, Recs[i].opts) IN e.bind # "" /\ e.bind # e.host})
AdpBindSame  == Cardinality({i \in AdpJ : LET e == Parse(Recs[i].proto, Recs[i].opts) IN e.bind # "" /\ e.bind = e.host})
AdpBindNone  == Cardinality({i \in AdpJ : Parse(Recs[i].proto, Recs[i].opts).bind = ""})

\* ---------------------------------------------------------------- observations (not judged)
TarsView(f) == [host |-> f.host, port |-> f.port, timeout |-> f.timeout, kind |-> f.istcp, grid |-> f.grid, qos |-> f.qos,
                weight |-> f.weight, wtype |-> f.wtype, auth |-> f.auth, setid |-> f.setid]
ObsToTars  == UNION {LET r == Recs[i] IN {<<r.id, f>> : f \in FieldDiff(TarsView(r.f), r.p, Ten)} : i \in OptIdx \cap Alive}
ObsFromReg == UNION {LET r == Recs[i] IN {<<r.id, f>> : f \in FieldDiff(r.r, Exp(r), Ten)} : i \in Judged}
ObsKeyText == {Id(i) : i \in {j \in Judged : Recs[j].p.key # KeyText(Exp(Recs[j]))}}
ObsProto   == {Id(i) : i \in {j \in Judged : Recs[j].p.proto # NetOf(Exp(Recs[j]).kind)}}
ObsStr     == {Id(i) : i \in {j \in OptIdx \cap Alive : Recs[j].p.str # Recs[j].p.key}}
ObsSetid0  == {Id(i) : i \in {j \in OptIdx \cap Alive : Recs[j].setid0 # ""}}
RealKeys   == {Recs[i].p.key : i \in Judged}
RefKeys    == {Key(Exp(Recs[i])) : i \in Judged}

\* ---------------------------------------------------------------- corpus facts (guard against a vacuous run)
ShortTexts == {Recs[i].t : i \in {j \in Idx : Recs[j].cls = "short"}}

Verdict ==
    [records |-> Len(Recs), opt |-> Cardinality(OptIdx), judged |-> Cardinality(Judged), repeats |-> Cardinality(Repeats),
     conv |-> Cardinality(ConvIdx), short_distinct |-> Cardinality(ShortTexts),
     endpoints |-> Cardinality(KeyDom), real_keys |-> Cardinality(RealKeys), ref_keys |-> Cardinality(RefKeys),
     panics |-> SetToSeq(Panics),
     parse |-> SetToSeq(ParseBad), round |-> SetToSeq(RoundBad), reground |-> SetToSeq(RegRoundBad), conv_round |-> SetToSeq(ConvBad),
     key_conv |-> SetToSeq(KeyConvBad), key_reg |-> SetToSeq(KeyRegBad), key_group |-> SetToSeq(KeyGroupBad),
     mgr |-> Cardinality(MgrIdx), mgr_judged |-> Cardinality(MgrJ), mgr_lists |-> Cardinality({i \in MgrJ : Len(Recs[i].parts) > 1}),
     adp |-> Cardinality(AdpIdx), adp_judged |-> Cardinality(AdpJ), adp_bind_other |-> AdpBindOther, adp_bind_same |-> AdpBindSame,
     adp_bind_none |-> AdpBindNone,
     mgr_count |-> SetToSeq(MgrCountBad), mgr_field |-> SetToSeq(MgrFieldBad), mgr_key |-> SetToSeq(MgrKeyBad),
     adp_field |-> SetToSeq(AdpFieldBad), adp_key_reg |-> SetToSeq(AdpKeyRegBad), adp_key_ann |-> SetToSeq(AdpKeyAnnBad),
     adp_round |-> SetToSeq(AdpRoundBad),
     obs_mgrreg |-> SetToSeq(ObsMgrReg), obs_listen |-> SetToSeq(ObsListen),
     obs_convkey |-> SetToSeq(ConvKeyBad),
     obs_repeat |-> SetToSeq(ObsRepeat), obs_totars |-> SetToSeq(ObsToTars), obs_fromreg |-> SetToSeq(ObsFromReg),
     obs_keytext |-> SetToSeq(ObsKeyText), obs_proto |-> SetToSeq(ObsProto), obs_str |-> SetToSeq(ObsStr),
     obs_setid0 |-> SetToSeq(ObsSetid0)]

ASSUME JsonSerialize("verdict.json", Verdict) /\ PrintT(<<"VERDICT-WRITTEN", Len(Recs)>>)
Init == x = 0
Next == UNCHANGED x
=============================================================================
