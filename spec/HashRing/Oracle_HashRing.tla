--------------------------- MODULE Oracle_HashRing ---------------------------
(***************************************************************************)
(* Batch oracle of C14.  unis.ndjson: universes (endpoints, host ids, the  *)
(* virtual points computed by the harness with the standard library, all   *)
(* points sorted, probe codes as <<hi16, lo16>>).  hists.ndjson: histories *)
(* of operations applied to the REAL selectors and, after every operation, *)
(* the endpoint the real Select returned for every probe code.             *)
(*                                                                         *)
(* TLC recomputes the member list of every step from the operations, and   *)
(* judges every answer with HashRing!Lookup (in its sorted-sequence form)  *)
(* or HashRing!ModLookup.  It also judges, on the real answers alone, the  *)
(* differential statements (set unchanged / one endpoint removed / one     *)
(* added) and agreement of any two histories that reach the same set.      *)
(* Answers that differ from the reference are classified by running the    *)
(* named deviations of the implementation (last writer wins on a shared    *)
(* point; Remove sized by its argument) over the same operations.          *)
(***************************************************************************)
EXTENDS HashRing, Json

Unis  == ndJsonDeserialize("unis.ndjson")
Hists == ndJsonDeserialize("hists.ndjson")

\* ---- universes as HashRing universes (concrete values: see the evaluation notes in HashRing)
PtsOf(i) == [e \in DOMAIN Unis[i].pts |-> Range(Unis[i].pts[e])] \o <<>>
UU == [i \in DOMAIN Unis |-> [host |-> Unis[i].host, pts |-> PtsOf(i)]] \o <<>>

Collisions(U) == {<<a, b>> \in EPs(U) \X EPs(U) : a < b /\ U.host[a] # U.host[b] /\ U.pts[a] \cap U.pts[b] # {}}
Variants(U)   == {<<a, b>> \in EPs(U) \X EPs(U) : a < b /\ U.host[a] = U.host[b] /\ U.pts[a] # U.pts[b]}
ColOf == [i \in DOMAIN Unis |-> Collisions(UU[i])] \o <<>>
VarOf == [i \in DOMAIN Unis |-> Variants(UU[i])] \o <<>>
\* for the report: shared points with the endpoints that have them
ColPoints(i) == {<<p, {e \in EPs(UU[i]) : p \in UU[i].pts[e]}>> :
                    p \in UNION {UU[i].pts[c[1]] \cap UU[i].pts[c[2]] : c \in ColOf[i]}}

HintBad == {i \in DOMAIN Unis : Unis[i].ring /\ ~SortedHintOK(UU[i], Unis[i].sorted)}

\* ---- one operation on the installed list
\* "tick": the endpoint manager asked its registry again and was told the endpoint set it already had (in whatever
\* order): the set is unchanged, nothing is installed (Manager!Tick) -- every code stays where it was.
ApplyOp(U, l, st) == CASE st.op = "add"    -> ListAdd(U, l, st.e)
                       [] st.op = "remove" -> ListRemove(U, l, st.e)
                       [] st.op = "tick"   -> l
                       [] OTHER            -> ListRefresh(U, st.eps)

RECURSIVE ListsFrom(_, _, _, _, _)
ListsFrom(U, steps, k, l, acc) ==
    IF k > Len(steps) THEN acc
    ELSE ListsFrom(U, steps, k + 1, ApplyOp(U, l, steps[k]), Append(acc, ApplyOp(U, l, steps[k])))
\* Lists[h][k] = installed list after step k of history h, according to the reference
Lists == [h \in DOMAIN Hists |-> ListsFrom(UU[Hists[h].u], Hists[h].steps, 1, <<>>, <<>>)] \o <<>>

Sets == [h \in DOMAIN Hists |-> [k \in DOMAIN Lists[h] |-> Range(Lists[h][k])] \o <<>>] \o <<>>
StepIds == UNION {{<<h, k>> : k \in DOMAIN Hists[h].steps} : h \in DOMAIN Hists}
AllRing == {s \in StepIds : Unis[Hists[s[1]].u].ring}

\* ---- the implementation's deviations run over the same operations (classification only)
\* owned = TRUE: Remove deletes exactly the points the removed member owns in the map (the repaired Remove of F15,
\* patches/C13-conhash-remove-by-owner.diff) -- with last-writer ownership still a deviation under collisions.
RemoveOwned(r, m) == [p \in {q \in DOMAIN r : r[q] # m} |-> r[p]]
RECURSIVE KFFrom(_, _, _, _, _, _, _, _, _)
KFFrom(U, steps, k, n, l, r, lw, ba, owned) ==
    IF k > n THEN r
    ELSE IF steps[k].op = "add" THEN
            KFFrom(U, steps, k + 1, n, ListAdd(U, l, steps[k].e),
                   (IF HasHost(U, l, steps[k].e) THEN r ELSE RingAddP(U, r, steps[k].e, lw)) @@ EmptyRing, lw, ba, owned)
    ELSE IF steps[k].op = "tick" THEN KFFrom(U, steps, k + 1, n, l, r, lw, ba, owned)
    ELSE IF steps[k].op = "remove" THEN
            KFFrom(U, steps, k + 1, n, ListRemove(U, l, steps[k].e),
                   (IF ~HasHost(U, l, steps[k].e) THEN r
                    ELSE IF owned THEN RemoveOwned(r, StoredAs(U, l, steps[k].e))
                    ELSE RingRemoveP(U, r, StoredAs(U, l, steps[k].e), steps[k].e,
                                     Range(ListRemove(U, l, steps[k].e)), lw, ba)) @@ EmptyRing, lw, ba, owned)
    ELSE KFFrom(U, steps, k + 1, n, ListRefresh(U, steps[k].eps), RingRefreshP(U, steps[k].eps, lw), lw, ba, owned)

KFSeq(sorted, r) == SelectSeq(sorted, LAMBDA p : p \in DOMAIN r)
KFLookup(r, rs, c) == IF rs = <<>> THEN None ELSE r[SuccSeq(rs, c)]

\* ---- judging one step
Pos(rs, c) == IF rs = <<>> THEN "empty"
              ELSE IF SuccSeq(rs, c) = c THEN "at-point"
              ELSE IF LowerBound(rs, c, 1, Len(rs) + 1) > Len(rs) THEN "wrap" ELSE "gap"

KFName(i) == IF ColOf[i] # {} /\ VarOf[i] # {} THEN "kf-both"
             ELSE IF ColOf[i] # {} THEN "kf-collision" ELSE "kf-remove-arg"
\* r/rs: the deviating map as the code maintains it today; r2/rs2: the same with Remove-by-owner
ClassOf(i, r, rs, r2, rs2, c, ans) ==
    IF ColOf[i] = {} /\ VarOf[i] = {} THEN "plain"
    ELSE IF KFLookup(r, rs, c) = ans THEN KFName(i)
    ELSE IF ColOf[i] # {} /\ KFLookup(r2, rs2, c) = ans THEN "kf-collision"
    ELSE "plain"

\* wrong: not an owner of the successor point at all
RingWrong(U, uni, S, rs, st) == {j \in DOMAIN st.ans : st.ans[j] \notin AcceptSeq(U, rs, uni.codes[j], S)}
\* shared successor point, answered with an owner other than the reference's choice: acceptable unless some
\* history reaching the same member set answers differently (then routing depends on history)
RingTie(U, uni, S, rs, st) == {j \in DOMAIN st.ans : /\ st.ans[j] \in AcceptSeq(U, rs, uni.codes[j], S)
                                                     /\ st.ans[j] # LookupSeq(U, rs, uni.codes[j], S)}
Conflicts(h, k, j) == \E s \in AllRing : /\ Hists[s[1]].u = Hists[h].u
                                         /\ Sets[s[1]][s[2]] = Sets[h][k]
                                         /\ Hists[s[1]].steps[s[2]].ans[j] # Hists[h].steps[k].ans[j]

RingBadRec(h, k, i, U, uni, S, rs, st, J, r, krs, r2, krs2) ==
    {[h |-> h, k |-> k, i |-> j, exp |-> LookupSeq(U, rs, uni.codes[j], S), got |-> st.ans[j],
      pt |-> IF rs = <<>> THEN <<0, 0>> ELSE SuccSeq(rs, uni.codes[j]), pos |-> Pos(rs, uni.codes[j]),
      member |-> st.ans[j] \in S, cls |-> ClassOf(i, r, krs, r2, krs2, uni.codes[j], st.ans[j])] : j \in J}

RingBad3(h, k, i, U, uni, S, rs, st, J, r, r2) ==
    RingBadRec(h, k, i, U, uni, S, rs, st, J, r, KFSeq(uni.sorted, r), r2, KFSeq(uni.sorted, r2))
RingBad2(h, k, i, U, uni, S, rs, st, J) ==
    IF J = {} THEN {}
    ELSE IF ColOf[i] = {} /\ VarOf[i] = {} THEN RingBad3(h, k, i, U, uni, S, rs, st, J, EmptyRing, EmptyRing)
    ELSE RingBad3(h, k, i, U, uni, S, rs, st, J,
                  KFFrom(U, Hists[h].steps, 1, k, <<>>, EmptyRing, ColOf[i] # {}, VarOf[i] # {}, FALSE),
                  KFFrom(U, Hists[h].steps, 1, k, <<>>, EmptyRing, ColOf[i] # {}, FALSE, TRUE))
RingBad1(h, k, i, U, uni, S, rs, st) ==
    RingBad2(h, k, i, U, uni, S, rs, st,
             RingWrong(U, uni, S, rs, st) \cup {j \in RingTie(U, uni, S, rs, st) : Conflicts(h, k, j)})
RingBad(h, k, i, U, uni, l, st) == RingBad1(h, k, i, U, uni, Range(l), RingSeq(U, uni.sorted, Range(l)), st)

ModBad(h, k, uni, l, st) ==
    {[h |-> h, k |-> k, i |-> j, exp |-> ModLookup(l, st.cycle, uni.codes[j]), got |-> st.ans[j],
      pt |-> <<0, 0>>, pos |-> "mod", member |-> st.ans[j] \in Range(l), cls |-> "plain"] :
        j \in {j \in DOMAIN st.ans : st.ans[j] # ModLookup(l, st.cycle, uni.codes[j])}}

StepBad(h, k) ==
    IF Unis[Hists[h].u].ring
    THEN RingBad(h, k, Hists[h].u, UU[Hists[h].u], Unis[Hists[h].u], Lists[h][k], Hists[h].steps[k])
    ELSE ModBad(h, k, Unis[Hists[h].u], Lists[h][k], Hists[h].steps[k])

Bad == UNION {StepBad(s[1], s[2]) : s \in StepIds}

\* the harness's own idea of the list must equal the reference's (else the harness is wrong, not the code)
ListBad == {s \in StepIds : Hists[s[1]].steps[s[2]].list # Lists[s[1]][s[2]]}

\* ---- the static-weight cycle the real builder returned vs the smooth weighted round-robin reference
RefCycle(uni, l) ==
    IF l = <<>> \/ \E m \in Range(l) : ~uni.static[m] \/ uni.weights[m] <= 0 THEN <<>>
    ELSE WeightCycle([i \in DOMAIN l |-> uni.weights[l[i]]] \o <<>>, [i \in DOMAIN l |-> uni.srank[l[i]]] \o <<>>)
CycleSteps == {s \in StepIds : Unis[Hists[s[1]].u].kind = "modw"}
CycleDiff  == {s \in CycleSteps : Hists[s[1]].steps[s[2]].cycle # RefCycle(Unis[Hists[s[1]].u], Lists[s[1]][s[2]])}
CycleUsed  == {s \in CycleSteps : Hists[s[1]].steps[s[2]].cycle # <<>>}

\* ---- differential statements, judged on the real answers of consecutive steps
RingSteps == {s \in StepIds : Unis[Hists[s[1]].u].ring /\ s[2] > 1}
DiffKind(S0, S1) == IF S0 = S1 THEN "same"
                    ELSE IF S1 \subseteq S0 /\ Cardinality(S0 \ S1) = 1 THEN "removed"
                    ELSE IF S0 \subseteq S1 /\ Cardinality(S1 \ S0) = 1 THEN "added" ELSE "other"
TheOne(T) == CHOOSE x \in T : TRUE
DiffWrong(kind, S0, S1, a0, a1) ==
    CASE kind = "same"    -> {j \in DOMAIN a1 : a1[j] # a0[j]}
      [] kind = "removed" -> {j \in DOMAIN a1 : a0[j] # TheOne(S0 \ S1) /\ a1[j] # a0[j]}
      [] kind = "added"   -> {j \in DOMAIN a1 : a1[j] # a0[j] /\ a1[j] # TheOne(S1 \ S0)}
      [] OTHER            -> {}
DiffOf(h, k, kind, S0, S1) ==
    {[h |-> h, k |-> k, i |-> j, kind |-> kind] :
        j \in DiffWrong(kind, S0, S1, Hists[h].steps[k - 1].ans, Hists[h].steps[k].ans)}
DiffBad == UNION {DiffOf(s[1], s[2], DiffKind(Range(Lists[s[1]][s[2] - 1]), Range(Lists[s[1]][s[2]])),
                         Range(Lists[s[1]][s[2] - 1]), Range(Lists[s[1]][s[2]])) : s \in RingSteps}
DiffJudged == Cardinality({s \in RingSteps :
                  DiffKind(Range(Lists[s[1]][s[2] - 1]), Range(Lists[s[1]][s[2]])) # "other"})

\* ---- two histories (two clients) with the same member set agree on every code
Disagree == {p \in AllRing \X AllRing :
                /\ p[1][1] < p[2][1]
                /\ Hists[p[1][1]].u = Hists[p[2][1]].u
                /\ Range(Lists[p[1][1]][p[1][2]]) = Range(Lists[p[2][1]][p[2][2]])
                /\ Hists[p[1][1]].steps[p[1][2]].ans # Hists[p[2][1]].steps[p[2][2]].ans}
SameSetPairs == Cardinality({p \in AllRing \X AllRing :
                /\ p[1][1] < p[2][1]
                /\ Hists[p[1][1]].u = Hists[p[2][1]].u
                /\ Range(Lists[p[1][1]][p[1][2]]) = Range(Lists[p[2][1]][p[2][2]])})

Result == [tag |-> "C14RESULT",
           bad |-> Bad, hintbad |-> HintBad, listbad |-> ListBad,
           cols |-> [i \in DOMAIN Unis |-> ColPoints(i)],
           diffbad |-> DiffBad, diffjudged |-> DiffJudged,
           disagree |-> Disagree, samesetpairs |-> SameSetPairs,
           cyclediff |-> CycleDiff, cyclesteps |-> Cardinality(CycleSteps), cycleused |-> Cardinality(CycleUsed),
           steps |-> Cardinality(StepIds)]

ASSUME PrintT(ToJson(Result))

OInit == u = 0 /\ list = <<>> /\ ring = <<>>
ONext == UNCHANGED vars
=============================================================================
