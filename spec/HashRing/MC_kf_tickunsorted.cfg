\* NEGATIVE configuration: the reply is compared with the stored sorted copy before it is sorted; after a recovery the
\* next tick re-installs the list.  Expected: PropModDeterminism violated.
CONSTANTS N = 3  HostRank <- HostRank4  Codes <- Codes12  KF_TickComparesUnsorted = TRUE
SPECIFICATION MSpec
PROPERTIES PropModDeterminism
CHECK_DEADLOCK FALSE
