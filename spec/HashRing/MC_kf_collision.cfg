\* NEGATIVE configuration: with colliding points the last-writer map is history dependent (F16);
\* TLC is expected to report InvRouting violated.
CONSTANTS Base = 3  KF_CollisionLastWriter = TRUE  KF_RemoveSizedByArgument = FALSE
  HostMap <- HostMap3  HiMax = 0  LoMax = 2  MaxPts = 2  CollisionFreeOnly = FALSE  Wide = FALSE
SPECIFICATION Spec
INVARIANTS InvRouting
CHECK_DEADLOCK FALSE
