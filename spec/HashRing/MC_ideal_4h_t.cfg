\* order-independent design; 4 hosts, 3 keys, <=2 points each, collisions included
CONSTANTS Base = 3  KF_CollisionLastWriter = FALSE  KF_RemoveSizedByArgument = FALSE
  HostMap <- HostMap4  HiMax = 0  LoMax = 2  MaxPts = 2  CollisionFreeOnly = FALSE  Wide = FALSE
SPECIFICATION Spec
INVARIANTS InvListOK InvRingOfSet InvRouting InvMember InvMod InvSeqForm InvPure
PROPERTIES PropDeterminism PropRemoval PropAddition
CHECK_DEADLOCK FALSE
