\* NEGATIVE configuration: Remove sized by its argument leaves points of a non-member (F15);
\* endpoints 1 and 3 are the same host with different point sets.  Expected: InvMember violated.
CONSTANTS Base = 3  KF_CollisionLastWriter = FALSE  KF_RemoveSizedByArgument = TRUE
  HostMap <- HostMap121  HiMax = 0  LoMax = 2  MaxPts = 2  CollisionFreeOnly = TRUE  Wide = FALSE
SPECIFICATION Spec
INVARIANTS InvMember
CHECK_DEADLOCK FALSE
