\* the endpoint manager between registry and mod-hash selector: 4 endpoints, every reply order, every block/recover history
CONSTANTS N = 4  HostRank <- HostRank4  Codes <- Codes12  KF_TickComparesUnsorted = FALSE
SPECIFICATION MSpec
INVARIANTS InvMembers InvStoredSorted
PROPERTIES PropModDeterminism PropTickIdempotent
CHECK_DEADLOCK FALSE
