---- MODULE MC_HashRing_TTrace_1790550922 ----
EXTENDS MC_HashRing, Sequences, TLCExt, Toolbox, Naturals, TLC

_expression ==
    LET MC_HashRing_TEExpression == INSTANCE MC_HashRing_TEExpression
    IN MC_HashRing_TEExpression!expression
----

_trace ==
    LET MC_HashRing_TETrace == INSTANCE MC_HashRing_TETrace
    IN MC_HashRing_TETrace!trace
----

_inv ==
    ~(
        TLCGet("level") = Len(_TETrace)
        /\
        u = ([host |-> <<1, 2, 3>>, pts |-> <<{}, {<<0, 0>>}, {<<0, 0>>}>>])
        /\
        ring = ((<<0, 0>> :> 3))
        /\
        list = (<<2, 3>>)
    )
----

_init ==
    /\ u = _TETrace[1].u
    /\ list = _TETrace[1].list
    /\ ring = _TETrace[1].ring
----

_next ==
    /\ \E i,j \in DOMAIN _TETrace:
        /\ \/ /\ j = i + 1
              /\ i = TLCGet("level")
        /\ u  = _TETrace[i].u
        /\ u' = _TETrace[j].u
        /\ list  = _TETrace[i].list
        /\ list' = _TETrace[j].list
        /\ ring  = _TETrace[i].ring
        /\ ring' = _TETrace[j].ring

\* Uncomment the ASSUME below to write the states of the error trace
\* to the given file in Json format. Note that you can pass any tuple
\* to `JsonSerialize`. For example, a sub-sequence of _TETrace.
    \* ASSUME
    \*     LET J == INSTANCE Json
    \*         IN J!JsonSerialize("MC_HashRing_TTrace_1790550922.json", _TETrace)

=============================================================================

 Note that you can extract this module `MC_HashRing_TEExpression`
  to a dedicated file to reuse `expression` (the module in the 
  dedicated `MC_HashRing_TEExpression.tla` file takes precedence 
  over the module `MC_HashRing_TEExpression` below).

---- MODULE MC_HashRing_TEExpression ----
EXTENDS MC_HashRing, Sequences, TLCExt, Toolbox, Naturals, TLC

expression == 
    [
        \* To hide variables of the `MC_HashRing` spec from the error trace,
        \* remove the variables below.  The trace will be written in the order
        \* of the fields of this record.
        u |-> u
        ,list |-> list
        ,ring |-> ring
        
        \* Put additional constant-, state-, and action-level expressions here:
        \* ,_stateNumber |-> _TEPosition
        \* ,_uUnchanged |-> u = u'
        
        \* Format the `u` variable as Json value.
        \* ,_uJson |->
        \*     LET J == INSTANCE Json
        \*     IN J!ToJson(u)
        
        \* Lastly, you may build expressions over arbitrary sets of states by
        \* leveraging the _TETrace operator.  For example, this is how to
        \* count the number of times a spec variable changed up to the current
        \* state in the trace.
        \* ,_uModCount |->
        \*     LET F[s \in DOMAIN _TETrace] ==
        \*         IF s = 1 THEN 0
        \*         ELSE IF _TETrace[s].u # _TETrace[s-1].u
        \*             THEN 1 + F[s-1] ELSE F[s-1]
        \*     IN F[_TEPosition - 1]
    ]

=============================================================================



Parsing and semantic processing can take forever if the trace below is long.
 In this case, it is advised to uncomment the module below to deserialize the
 trace from a generated binary file.

\*
\*---- MODULE MC_HashRing_TETrace ----
\*EXTENDS MC_HashRing, IOUtils, TLC
\*
\*trace == IODeserialize("MC_HashRing_TTrace_1790550922.bin", TRUE)
\*
\*=============================================================================
\*

---- MODULE MC_HashRing_TETrace ----
EXTENDS MC_HashRing, TLC

trace == 
    <<
    ([u |-> [host |-> <<1, 2, 3>>, pts |-> <<{}, {<<0, 0>>}, {<<0, 0>>}>>],ring |-> <<>>,list |-> <<>>]),
    ([u |-> [host |-> <<1, 2, 3>>, pts |-> <<{}, {<<0, 0>>}, {<<0, 0>>}>>],ring |-> (<<0, 0>> :> 3),list |-> <<2, 3>>])
    >>
----


=============================================================================

---- CONFIG MC_HashRing_TTrace_1790550922 ----
CONSTANTS
    Base = 3
    KF_CollisionLastWriter = TRUE
    KF_RemoveSizedByArgument = FALSE
    HostMap <- HostMap3
    HiMax = 0
    LoMax = 2
    MaxPts = 2
    CollisionFreeOnly = FALSE
    Wide = FALSE

INVARIANT
    _inv

CHECK_DEADLOCK
    \* CHECK_DEADLOCK off because of PROPERTY or INVARIANT above.
    FALSE

INIT
    _init

NEXT
    _next

CONSTANT
    _TETrace <- _trace

ALIAS
    _expression
=============================================================================
\* Generated on Sun Sep 27 23:15:24 UTC 2026