\* order-independent design; 4 endpoints, endpoint 4 is host 1 again (other port/weight); 3 keys
CONSTANTS Base = 3  KF_CollisionLastWriter = FALSE  KF_RemoveSizedByArgument = FALSE
  HostMap <- HostMap1231  HiMax = 0  LoMax = 2  MaxPts = 2  CollisionFreeOnly = FALSE  Wide = FALSE
SPECIFICATION Spec
INVARIANTS InvListOK InvRingOfSet InvRouting InvMember InvMod InvSeqForm InvPure
PROPERTIES PropDeterminism PropRemoval PropAddition
CHECK_DEADLOCK FALSE
