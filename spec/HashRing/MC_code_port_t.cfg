\* implementation's collision behaviour, Remove by stored member; 4 endpoints with a repeated host; collision-free; 3 keys
CONSTANTS Base = 3  KF_CollisionLastWriter = TRUE  KF_RemoveSizedByArgument = FALSE
  HostMap <- HostMap1231  HiMax = 0  LoMax = 2  MaxPts = 2  CollisionFreeOnly = TRUE  Wide = FALSE
SPECIFICATION Spec
INVARIANTS InvListOK InvRingOfSet InvRouting InvMember InvMod InvSeqForm InvPure
PROPERTIES PropDeterminism PropRemoval PropAddition
CHECK_DEADLOCK FALSE
