\* the implementation's algorithm (last writer wins, Remove deletes points computed from its argument) on collision-free universes; 3 hosts, 4 keys
CONSTANTS Base = 2  KF_CollisionLastWriter = TRUE  KF_RemoveSizedByArgument = TRUE
  HostMap <- HostMap3  HiMax = 1  LoMax = 1  MaxPts = 2  CollisionFreeOnly = TRUE  Wide = FALSE
SPECIFICATION Spec
INVARIANTS InvListOK InvRingOfSet InvRouting InvMember InvMod InvSeqForm InvPure
PROPERTIES PropDeterminism PropRemoval PropAddition
CHECK_DEADLOCK FALSE
