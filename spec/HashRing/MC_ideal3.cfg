\* the order-independent design: every universe, collisions included
CONSTANTS Base = 3  KF_CollisionLastWriter = FALSE  KF_RemoveSizedByArgument = FALSE
  HostMap <- HostMap3  HiMax = 1  LoMax = 2  MaxPts = 2  CollisionFreeOnly = FALSE  Wide = FALSE
SPECIFICATION Spec
INVARIANTS InvListOK InvRingOfSet InvRouting InvMember InvMod InvSeqForm InvPure
PROPERTIES PropDeterminism PropRemoval PropAddition
CHECK_DEADLOCK FALSE
