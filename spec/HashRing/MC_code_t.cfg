\* implementation's algorithm on collision-free universes; 3 hosts, 6 keys
CONSTANTS Base = 3  KF_CollisionLastWriter = TRUE  KF_RemoveSizedByArgument = TRUE
  HostMap <- HostMap3  HiMax = 1  LoMax = 2  MaxPts = 2  CollisionFreeOnly = TRUE  Wide = FALSE
SPECIFICATION Spec
INVARIANTS InvListOK InvRingOfSet InvRouting InvMember InvMod InvSeqForm InvPure
PROPERTIES PropDeterminism PropRemoval PropAddition
CHECK_DEADLOCK FALSE
