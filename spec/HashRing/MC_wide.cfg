CONSTANTS Base = 65536  KF_CollisionLastWriter = FALSE  KF_RemoveSizedByArgument = FALSE
  HostMap <- HostMap3  HiMax = 0  LoMax = 0  MaxPts = 0  CollisionFreeOnly = FALSE  Wide = TRUE
SPECIFICATION Spec
CHECK_DEADLOCK FALSE
