------------------------------ MODULE HashRing ------------------------------
(***************************************************************************)
(* C14 -- hash routing.                                                    *)
(*                                                                         *)
(* Reference for "routing by hash is a pure function of the hash code and  *)
(* the current endpoint set".                                              *)
(*                                                                         *)
(* Part 1 (pure): keys, the ring of a member set, Lookup, ModSlot, the     *)
(*   static-weight cycle.  These are what the batch oracle judges the real *)
(*   selectors with.                                                       *)
(* Part 2 (machine): a selector shaped like the implementation -- an       *)
(*   installed endpoint list plus an incrementally maintained point->owner *)
(*   map, changed by Add / Remove / Refresh.  TLC checks, for every small  *)
(*   universe of virtual points and every history, that the machine routes *)
(*   exactly like the pure function of the member set (history             *)
(*   independence), that routing is unchanged while the set is unchanged   *)
(*   (determinism), and that Remove/Add are minimally disruptive.          *)
(*   The code's two known deviations are named constants:                  *)
(*     KF_CollisionLastWriter  -- a point shared by two hosts is owned by  *)
(*        whoever was added last, and Remove deletes the point whoever     *)
(*        owns it (F16);                                                   *)
(*     KF_RemoveSizedByArgument -- Remove deletes the points computed from *)
(*        the ARGUMENT (its weight), not those of the stored member (F15). *)
(*                                                                         *)
(* 32-bit unsigned codes/points do not fit TLC integers: a key is a pair   *)
(* <<hi, lo>> with value hi*Base + lo (Base = 65536 for the real system,   *)
(* a small number in the exhaustive configurations).                       *)
(***************************************************************************)
EXTENDS Integers, Sequences, FiniteSets, TLC

CONSTANTS Base,                      \* radix of the pair representation
          KF_CollisionLastWriter,    \* BOOLEAN, see above
          KF_RemoveSizedByArgument   \* BOOLEAN, see above

None == 0      \* "no endpoint" (Select returned an error); endpoint ids are 1, 2, ...

(***************************************************************************)
(* Keys                                                                    *)
(***************************************************************************)
KeyLT(a, b) == a[1] < b[1] \/ (a[1] = b[1] /\ a[2] < b[2])
KeyLE(a, b) == a[1] < b[1] \/ (a[1] = b[1] /\ a[2] <= b[2])

Range(s) == {s[i] : i \in DOMAIN s}

(***************************************************************************)
(* Universe.  U = [host |-> <<host id of endpoint 1, ...>>,                *)
(*                 pts  |-> <<set of points of endpoint 1, ...>>]          *)
(* An endpoint is (host, port, weight); membership in a selector is by     *)
(* host (Endpoint.HashKey() is the host), the points of an endpoint are a  *)
(* parameter (MD5 is not modelled).  The id order is the tie-break of the  *)
(* order-independent owner of a shared point.                              *)
(***************************************************************************)
EPs(U) == DOMAIN U.pts
HostDistinct(U, S) == \A a, b \in S : U.host[a] = U.host[b] => a = b

RingPts(U, S)   == UNION {U.pts[e] : e \in S}
Owners(U, p, S) == {e \in S : p \in U.pts[e]}
MinOf(T)        == CHOOSE x \in T : \A y \in T : x <= y
Owner(U, p, S)  == MinOf(Owners(U, p, S))

\* least point >= c, wrapping to the least point of the ring   (R non-empty)
Succ(R, c) == LET ge == {p \in R : KeyLE(c, p)}
                  T  == IF ge = {} THEN R ELSE ge
              IN  CHOOSE p \in T : \A q \in T : KeyLE(p, q)

\* THE routing function of consistent hashing: code x member set -> endpoint
Lookup(U, c, S) == IF RingPts(U, S) = {} THEN None ELSE Owner(U, Succ(RingPts(U, S), c), S)

\* The property does not prescribe WHO owns a point shared by several members, only that the choice does not
\* depend on history: any member having the successor point is acceptable, provided every history reaching
\* the same set makes the same choice (Lookup's choice, the least id, is one such rule).
Accept(U, c, S) == IF RingPts(U, S) = {} THEN {None} ELSE Owners(U, Succ(RingPts(U, S), c), S)

(***************************************************************************)
(* The same function evaluated over a sorted sequence of all the           *)
(* universe's points (a hint that is verified, see SortedHintOK); this is  *)
(* what the oracle uses on real rings (hundreds of points).  Equivalence   *)
(* with Lookup is checked exhaustively in the MC configurations.           *)
(***************************************************************************)
SortedHintOK(U, sorted) == /\ \A i \in 1..(Len(sorted) - 1) : KeyLT(sorted[i], sorted[i + 1])
                           /\ Range(sorted) = RingPts(U, EPs(U))

RingSeq(U, sorted, S) == SelectSeq(sorted, LAMBDA p : \E e \in S : p \in U.pts[e])

RECURSIVE LowerBound(_, _, _, _)
\* least i in lo..hi-1 with c <= rs[i]; hi if there is none
LowerBound(rs, c, lo, hi) ==
    IF lo >= hi THEN lo
    ELSE LET mid == (lo + hi) \div 2
         IN  IF KeyLE(c, rs[mid]) THEN LowerBound(rs, c, lo, mid) ELSE LowerBound(rs, c, mid + 1, hi)

SuccSeq(rs, c) == LET i == LowerBound(rs, c, 1, Len(rs) + 1) IN rs[IF i > Len(rs) THEN 1 ELSE i]

LookupSeq(U, rs, c, S) == IF rs = <<>> THEN None ELSE Owner(U, SuccSeq(rs, c), S)
AcceptSeq(U, rs, c, S) == IF rs = <<>> THEN {None} ELSE Owners(U, SuccSeq(rs, c), S)

(***************************************************************************)
(* Mod hash                                                                *)
(***************************************************************************)
\* (hi*Base + lo) mod N without forming the wide value
ModSlot(c, N) == ((c[1] * (Base % N)) + c[2]) % N

\* list: installed endpoints in order; cycle: the static-weight cycle of 0-based list indices (<<>> = none)
ModLookup(list, cycle, c) ==
    IF list = <<>> THEN None
    ELSE IF cycle # <<>> THEN list[cycle[ModSlot(c, Len(cycle)) + 1] + 1]
    ELSE list[ModSlot(c, Len(list)) + 1]

(***************************************************************************)
(* Static-weight cycle (reference: smooth weighted round-robin).           *)
(* W: sequence of positive weights, T: sequence of distinct tie-break      *)
(* ranks (order of Endpoint.String()).  Result: 0-based indices.           *)
(***************************************************************************)
MaxOf(T) == CHOOSE x \in T : \A y \in T : y <= x
Clamp(x, lo, hi) == IF x < lo THEN lo ELSE IF x > hi THEN hi ELSE x
ScaleOf(W) == Clamp(MaxOf(Range(W)) \div MinOf(Range(W)), 10, 100)
Scaled(W)  == [i \in DOMAIN W |-> (W[i] * ScaleOf(W)) \div MaxOf(Range(W))]

RECURSIVE SumOver(_, _)
SumOver(f, D) == IF D = {} THEN 0 ELSE LET x == CHOOSE x \in D : TRUE IN f[x] + SumOver(f, D \ {x})

\* smooth weighted round-robin: pick the largest current weight (ties: the larger String rank), lower it by
\* the total, then raise everybody by their own weight.
\* (Evaluation notes for TLC: "f \o <<>>" turns a lazily evaluated function over 1..N into a concrete tuple,
\*  and heavy intermediate values are passed as operator arguments, which TLC evaluates once, not as LETs.)
WrrPick(ids, cur, T) == CHOOSE i \in ids : \A j \in ids : cur[j] < cur[i] \/ (cur[j] = cur[i] /\ T[j] <= T[i])
WrrStep(w, cur, total, pick) == [i \in DOMAIN w |-> cur[i] + w[i] - (IF i = pick THEN total ELSE 0)] \o <<>>
RECURSIVE Smooth(_, _, _, _, _, _, _)
Smooth(w, T, ids, cur, total, n, acc) ==
    IF n = 0 THEN acc
    ELSE Smooth(w, T, ids, WrrStep(w, cur, total, WrrPick(ids, cur, T)), total, n - 1,
                Append(acc, WrrPick(ids, cur, T) - 1))

WeightCycleOf(w, T, ids, small, total) == Smooth(w, T, ids, w, total, total, small)
WeightCycleScaled(w, T) ==
    WeightCycleOf(w, T, {i \in DOMAIN w : w[i] > 0},
                  SelectSeq([i \in DOMAIN w |-> i - 1] \o <<>>, LAMBDA k : w[k + 1] = 0),
                  SumOver(w, {i \in DOMAIN w : w[i] > 0}))
WeightCycle(W, T) == WeightCycleScaled(Scaled(W) \o <<>>, T)

CountIn(s, x) == Cardinality({i \in DOMAIN s : s[i] = x})

(***************************************************************************)
(* Installed list (both selectors keep one, de-duplicated by host)         *)
(***************************************************************************)
HasHost(U, l, e)    == \E i \in DOMAIN l : U.host[l[i]] = U.host[e]
ListAdd(U, l, e)    == IF HasHost(U, l, e) THEN l ELSE Append(l, e)
ListRemove(U, l, e) == SelectSeq(l, LAMBDA m : U.host[m] # U.host[e])
RECURSIVE ListRefreshFrom(_, _, _)
ListRefreshFrom(U, l, eps) == IF eps = <<>> THEN l ELSE ListRefreshFrom(U, ListAdd(U, l, Head(eps)), Tail(eps))
ListRefresh(U, eps) == ListRefreshFrom(U, <<>>, eps)
StoredAs(U, l, e)   == CHOOSE m \in Range(l) : U.host[m] = U.host[e]     \* defined when HasHost

(***************************************************************************)
(* Point->owner map maintained incrementally, as the implementation does   *)
(***************************************************************************)
EmptyRing == [p \in {} |-> None]

\* lastWriter / byArg: the two named deviations, as explicit parameters (the oracle runs both variants)
RingAddP(U, r, e, lastWriter) ==
    [p \in DOMAIN r \cup U.pts[e] |->
        IF p \in U.pts[e] /\ (lastWriter \/ p \notin DOMAIN r \/ e < r[p]) THEN e ELSE r[p]]
RingAdd(U, r, e) == RingAddP(U, r, e, KF_CollisionLastWriter)

\* m is removed, Sn is the member set afterwards; arg is the endpoint value passed to Remove
RingRemoveP(U, r, m, arg, Sn, lastWriter, byArg) ==
    IF lastWriter \/ byArg
    THEN [p \in DOMAIN r \ (IF byArg THEN U.pts[arg] ELSE U.pts[m]) |-> r[p]]
    ELSE [p \in RingPts(U, Sn) |-> IF r[p] = m THEN Owner(U, p, Sn) ELSE r[p]]
RingRemove(U, r, m, arg, Sn) == RingRemoveP(U, r, m, arg, Sn, KF_CollisionLastWriter, KF_RemoveSizedByArgument)

RECURSIVE RingRefreshFromP(_, _, _, _, _)
RingRefreshFromP(U, l, r, eps, lastWriter) ==
    IF eps = <<>> THEN r
    ELSE IF HasHost(U, l, Head(eps)) THEN RingRefreshFromP(U, l, r, Tail(eps), lastWriter)
    ELSE RingRefreshFromP(U, Append(l, Head(eps)), RingAddP(U, r, Head(eps), lastWriter) @@ EmptyRing, Tail(eps), lastWriter)
         \* ("f @@ EmptyRing" = f; it makes TLC build the function now instead of stacking lazy ones)
RingRefreshP(U, eps, lastWriter) == RingRefreshFromP(U, <<>>, EmptyRing, eps, lastWriter)
RingRefresh(U, eps) == RingRefreshP(U, eps, KF_CollisionLastWriter)

MachineLookup(r, c) == IF DOMAIN r = {} THEN None ELSE r[Succ(DOMAIN r, c)]

(***************************************************************************)
(* Machine                                                                 *)
(***************************************************************************)
VARIABLES u,      \* the universe (chosen initially, never changes)
          list,   \* installed endpoints in order (what mod-hash indexes)
          ring    \* point -> owner (what consistent hashing searches)
vars == <<u, list, ring>>

Members == Range(list)

Add(e) == /\ list' = ListAdd(u, list, e)
          /\ ring' = IF HasHost(u, list, e) THEN ring ELSE RingAdd(u, ring, e)
          /\ UNCHANGED u

Remove(e) == /\ list' = ListRemove(u, list, e)
             /\ ring' = IF HasHost(u, list, e)
                        THEN RingRemove(u, ring, StoredAs(u, list, e), e, Range(ListRemove(u, list, e)))
                        ELSE ring
             /\ UNCHANGED u

Refresh(eps) == /\ list' = ListRefresh(u, eps)
                /\ ring' = RingRefresh(u, eps)
                /\ UNCHANGED u

\* Select changes nothing; its answer is the state function MachineLookup / ModLookup
Select(c) == UNCHANGED vars

(***************************************************************************)
(* Properties of the machine (Codes: the codes quantified over)            *)
(***************************************************************************)
ListOK == /\ HostDistinct(u, Members)
          /\ \A i, j \in DOMAIN list : list[i] = list[j] => i = j

\* history independence: the map, hence the routing, is a function of the member set alone
RingIsFunctionOfSet == ring = [p \in RingPts(u, Members) |-> Owner(u, p, Members)]
RoutingIsFunctionOfSet(Codes) == \A c \in Codes : MachineLookup(ring, c) = Lookup(u, c, Members)

RoutesToMember(Codes) == \A c \in Codes : /\ MachineLookup(ring, c) \in Members \cup {None}
                                          /\ (MachineLookup(ring, c) = None) = (RingPts(u, Members) = {})

\* determinism: as long as the set is unchanged (whatever operations ran) every code keeps its endpoint
Determinism(Codes) == [][Members' = Members => \A c \in Codes : MachineLookup(ring', c) = MachineLookup(ring, c)]_vars

\* removal re-routes only the removed endpoint's codes
RemovalMinimal(Codes) ==
    [][\A x \in Members : (Members' = Members \ {x}) =>
          \A c \in Codes : MachineLookup(ring, c) # x => MachineLookup(ring', c) = MachineLookup(ring, c)]_vars

\* addition moves codes only onto the new endpoint
AdditionMinimal(Codes) ==
    [][\A y \in EPs(u) \ Members : (Members' = Members \cup {y}) =>
          \A c \in Codes : MachineLookup(ring', c) \in {MachineLookup(ring, c), y}]_vars

\* mod-hash: slot (value of the code) mod N of the installed list
ModRouting(Codes) == \A c \in Codes :
    ModLookup(list, <<>>, c) = IF list = <<>> THEN None ELSE list[((c[1] * Base + c[2]) % Len(list)) + 1]

(***************************************************************************)
(* The same statements about the pure function (no machine)                *)
(***************************************************************************)
MemberSets(U) == {S \in SUBSET EPs(U) : HostDistinct(U, S)}

PureRemovalMinimal(U, Codes) ==
    \A S \in MemberSets(U) : \A x \in S : \A c \in Codes :
        Lookup(U, c, S) # x => Lookup(U, c, S \ {x}) = Lookup(U, c, S)

PureAdditionMinimal(U, Codes) ==
    \A S \in MemberSets(U) : \A y \in EPs(U) \ S : \A c \in Codes :
        HostDistinct(U, S \cup {y}) => Lookup(U, c, S \cup {y}) \in {Lookup(U, c, S), y}

=============================================================================
