---------------------------- MODULE MC_HashRing ----------------------------
(***************************************************************************)
(* Exhaustive configurations of HashRing: every universe of virtual points *)
(* (every assignment of at most MaxPts points out of a small key space to  *)
(* each endpoint) and every Add/Remove/Refresh history over it.            *)
(***************************************************************************)
EXTENDS HashRing, TLC

CONSTANTS HostMap,            \* <<host id of endpoint 1, ...>>; equal ids = same host, other port/weight
          HiMax, LoMax,       \* key space (0..HiMax) \X (0..LoMax)
          MaxPts,             \* at most this many points per endpoint
          CollisionFreeOnly,  \* restrict to universes where distinct hosts share no point
          Wide                \* run the wide-arithmetic / weight-cycle theorems (ASSUMEs) only

ASSUME LoMax < Base

HostMap3   == <<1, 2, 3>>
HostMap4   == <<1, 2, 3, 4>>
HostMap1231 == <<1, 2, 3, 1>>
HostMap121 == <<1, 2, 1>>

NEP  == Len(HostMap)
Keys == (0..HiMax) \X (0..LoMax)
Codes == Keys
PtSets == {s \in SUBSET Keys : Cardinality(s) <= MaxPts}

CollisionFree(U) == \A a, b \in EPs(U) : U.host[a] # U.host[b] => U.pts[a] \cap U.pts[b] = {}
Universes == {U \in {[host |-> HostMap, pts |-> P] : P \in [1..NEP -> PtSets]} :
                 CollisionFreeOnly => CollisionFree(U)}

RECURSIVE DistinctSeqs(_, _)
DistinctSeqs(S, n) == IF n = 0 THEN {<<>>}
                      ELSE LET shorter == DistinctSeqs(S, n - 1)
                           IN  shorter \cup {Append(s, e) : s \in {t \in shorter : Len(t) = n - 1}, e \in S}
RefreshLists == {s \in DistinctSeqs(1..NEP, NEP) : \A i, j \in DOMAIN s : s[i] = s[j] => i = j}

Init == /\ u \in (IF Wide THEN {} ELSE Universes)
        /\ list = <<>>
        /\ ring = EmptyRing
Next == \/ \E e \in EPs(u) : Add(e) \/ Remove(e)
        \/ \E s \in RefreshLists : Refresh(s)
Spec == Init /\ [][Next]_vars

RECURSIVE SortKeys(_)
SortKeys(T) == IF T = {} THEN <<>>
               ELSE LET m == CHOOSE p \in T : \A q \in T : KeyLE(p, q) IN <<m>> \o SortKeys(T \ {m})
SortedAll == SortKeys(RingPts(u, EPs(u)))

\* ---- invariants
InvListOK      == ListOK
InvRingOfSet   == RingIsFunctionOfSet
InvRouting     == RoutingIsFunctionOfSet(Codes)
InvMember      == RoutesToMember(Codes)
InvMod         == ModRouting(Codes)
InvSeqForm     == /\ SortedHintOK(u, SortedAll)
                  /\ \A c \in Codes : LookupSeq(u, RingSeq(u, SortedAll, Members), c, Members) = Lookup(u, c, Members)
                  /\ \A c \in Codes : /\ AcceptSeq(u, RingSeq(u, SortedAll, Members), c, Members) = Accept(u, c, Members)
                                       /\ Lookup(u, c, Members) \in Accept(u, c, Members)
InvPure        == list = <<>> => PureRemovalMinimal(u, Codes) /\ PureAdditionMinimal(u, Codes)
\* ---- action properties
PropDeterminism == Determinism(Codes)
PropRemoval     == RemovalMinimal(Codes)
PropAddition    == AdditionMinimal(Codes)

(***************************************************************************)
(* Wide arithmetic: ModSlot on 16-bit halves equals the 32-bit value mod N *)
(* (the value is never formed: for hi >= 2^15 it is split at 2^31).        *)
(***************************************************************************)
HalfSample == {0, 1, 2, 3, 7, 255, 256, 257, 1000, 32767, 32768, 32769, 40000, 54321, 65534, 65535}
M31 == 2147483647
WideMod(hi, lo, N) == IF hi < 32768 THEN (hi * 65536 + lo) % N
                      ELSE ((((M31 % N) + 1) % N) + (((hi - 32768) * 65536 + lo) % N)) % N
ModSlotWide == \A hi \in HalfSample, lo \in HalfSample, N \in 1..700 : ModSlot(<<hi, lo>>, N) = WideMod(hi, lo, N)

WSet == {1, 2, 3, 5, 10, 11, 100}
WVecs == UNION {[1..n -> WSet] : n \in 1..3}
\* (operator parameters, not LET: TLC caches evaluated arguments but re-evaluates LET bodies under a quantifier)
CycOK(W, cyc, sc) == /\ \A i \in DOMAIN W : CountIn(cyc, i - 1) = (IF sc[i] = 0 THEN 1 ELSE sc[i])
                     /\ \A k \in DOMAIN cyc : cyc[k] \in 0..(Len(W) - 1)
CycleCounts == \A W \in WVecs : CycOK(W, WeightCycle(W, [i \in DOMAIN W |-> i]), Scaled(W))
\* smooth weighted round robin spreads: with weights <<1,1,2>> nobody is picked twice in a row except by need
CycleExample == WeightCycle(<<5, 1, 1>>, <<1, 2, 3>>) = WeightCycle(<<50, 10, 10>>, <<1, 2, 3>>)

ASSUME Wide => PrintT(<<"THEOREM", "ModSlotWide", Base = 65536 /\ ModSlotWide>>)
ASSUME Wide => PrintT(<<"THEOREM", "CycleCounts", CycleCounts>>)
ASSUME Wide => PrintT(<<"THEOREM", "CycleExample", CycleExample>>)
=============================================================================
