CONSTANTS Base = 65536  KF_CollisionLastWriter = FALSE  KF_RemoveSizedByArgument = FALSE
INIT OInit
NEXT ONext
