\* order-independent design; 3 hosts, 4 keys, <=2 points each, collisions included
CONSTANTS Base = 2  KF_CollisionLastWriter = FALSE  KF_RemoveSizedByArgument = FALSE
  HostMap <- HostMap3  HiMax = 1  LoMax = 1  MaxPts = 2  CollisionFreeOnly = FALSE  Wide = FALSE
SPECIFICATION Spec
INVARIANTS InvListOK InvRingOfSet InvRouting InvMember InvMod InvSeqForm InvPure
PROPERTIES PropDeterminism PropRemoval PropAddition
CHECK_DEADLOCK FALSE
