------------------------------ MODULE Manager ------------------------------
(***************************************************************************)
(* C14 -- the endpoint manager between a registry and its hash selectors.  *)
(*                                                                         *)
(* The manager asks its registry periodically (Tick).  A registry owes     *)
(* nobody an order: a reply is any arrangement of the endpoints it names.  *)
(* The manager keeps the last reply in a canonical order (by host) and     *)
(* installs a new list into its selectors only when the reply names        *)
(* another SET; the installed list is the reply minus the endpoints its    *)
(* status check has blocked, in the manager's own installation order (the  *)
(* code: ascending crc32 of the endpoint key).  Between refreshes the      *)
(* status check takes an endpoint out (Block: Remove on the selectors) and *)
(* an answered probe brings it back (Recover: Add on the selectors, which  *)
(* APPENDS -- the list is then no longer in installation order).           *)
(*                                                                         *)
(* Property (mod-hash half of "the same code goes to the same endpoint for *)
(* as long as the set is unchanged"): a step that changes neither the set  *)
(* the registry names nor the set in rotation moves no code.  The ring     *)
(* half needs no model of its own: consistent hashing is a function of the *)
(* member set (HashRing!RingIsFunctionOfSet), whatever the list order.     *)
(*                                                                         *)
(* Named deviation KF_TickComparesUnsorted: the reply is compared with the *)
(* stored (sorted) copy BEFORE it is sorted, so an unsorted reply always   *)
(* looks new and every tick re-installs the list in installation order:    *)
(* after a Recover the next tick moves the codes although nothing changed. *)
(*                                                                         *)
(* Not demanded (the statement speaks of "the set", and the registry's set *)
(* did change): a reply that drops a BLOCKED endpoint re-installs the list *)
(* although the set in rotation stays the same; the driver counts these.   *)
(***************************************************************************)
EXTENDS Integers, Sequences, FiniteSets, TLC

CONSTANTS N,                        \* endpoints 1..N; the number is the installation rank (crc32 order)
          HostRank,                 \* <<rank of endpoint 1 in host order, ...>>: another order than 1..N
          Codes,                    \* hash codes quantified over
          KF_TickComparesUnsorted   \* BOOLEAN, see above

VARIABLES reg,      \* the last reply, as stored: sorted by host
          blocked,  \* endpoints taken out by the status check
          list      \* installed list of the mod-hash selector (slot = code mod length)
mvars == <<reg, blocked, list>>

EPs == 1..N
Range(s) == {s[i] : i \in DOMAIN s}
RECURSIVE SortBy(_, _)
SortBy(S, rank) == IF S = {} THEN <<>>
                   ELSE LET m == CHOOSE x \in S : \A y \in S : rank[x] <= rank[y]
                        IN  <<m>> \o SortBy(S \ {m}, rank)
ByHost(S) == SortBy(S, HostRank)
Installed(S) == SortBy(S, [e \in EPs |-> e])

RECURSIVE Perms(_)
Perms(S) == IF S = {} THEN {<<>>} ELSE UNION {{<<x>> \o p : p \in Perms(S \ {x})} : x \in S}
Replies == UNION {Perms(S) : S \in SUBSET EPs}

Route(l, c) == IF l = <<>> THEN 0 ELSE l[(c % Len(l)) + 1]

Init == /\ reg = <<>> /\ blocked = {} /\ list = <<>>

Tick(reply) ==
    LET looksSame == IF KF_TickComparesUnsorted THEN reply = reg ELSE ByHost(Range(reply)) = reg
    IN  IF looksSame \/ reply = <<>> THEN UNCHANGED mvars
        ELSE /\ reg' = ByHost(Range(reply))
             /\ blocked' = blocked \cap Range(reply)          \* a dropped endpoint's adapter is forgotten
             /\ list' = Installed(Range(reply) \ blocked)

Block(e) == /\ e \in Range(list) /\ Len(list) > 1
            /\ list' = SelectSeq(list, LAMBDA m : m # e)
            /\ blocked' = blocked \cup {e}
            /\ UNCHANGED reg

Recover(e) == /\ e \in blocked
              /\ list' = Append(list, e)
              /\ blocked' = blocked \ {e}
              /\ UNCHANGED reg

Next == \/ \E r \in Replies : Tick(r)
        \/ \E e \in EPs : Block(e) \/ Recover(e)
MSpec == Init /\ [][Next]_mvars

InRotation == Range(list)
Named == Range(reg)

InvMembers == /\ InRotation = Named \ blocked
              /\ blocked \subseteq Named
              /\ \A i, j \in DOMAIN list : list[i] = list[j] => i = j
InvStoredSorted == reg = ByHost(Named)

\* the registry names the same set and the same endpoints are in rotation: every code keeps its endpoint
PropModDeterminism ==
    [][(Named' = Named /\ InRotation' = InRotation) => \A c \in Codes : Route(list', c) = Route(list, c)]_mvars
\* a reply with the stored set, in any order, is not a change at all
PropTickIdempotent == [][\A r \in Replies : (Range(r) = Named /\ Tick(r)) => UNCHANGED mvars]_mvars

HostRank4 == <<3, 1, 4, 2>>
Codes12 == 0..11
=============================================================================
