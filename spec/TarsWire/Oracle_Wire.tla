---- MODULE Oracle_Wire ----
(* Batch oracle for C02: judges records produced by the real codec (harness/cmd/codecdrive prim).    *)
(*  k = "wr": value v of type t written with the real Write* under `tag` gave bytes `out`; the bytes  *)
(*            (followed by `pad` sentinel bytes) were read back with the real readers listed in rd.  *)
(*  k = "r" : hand-made bytes `out` (an admissible, not necessarily narrowest, encoding) read back.   *)
EXTENDS TarsWire, Json
Recs == ndJsonDeserialize("recs.ndjson")
Pad(n) == Rep(90, n)
\* one read observation d against the reference reading of bytes `in` (field + padding)
ReadOk(d, in, tag) ==
  LET q == ReadField(d.t, in, tag) IN
  /\ d.ok = q.ok
  /\ q.ok => /\ d.rem = Len(in) - q.p + 1                 \* positioned exactly at the end of the field
             /\ IF d.t \in {"float32", "float64"} /\ q.nan THEN d.nan /\ IsNaN64(d.v)
                ELSE d.v = q.val
Check(r) ==
  IF r.k = "wr" THEN
       LET e == EncField(r.t, r.tag, r.v) IN
       /\ r.out = e                                        \* the bytes are exactly those the format prescribes
       /\ Len(r.rd) >= 1
       /\ \A i \in 1..Len(r.rd) : ReadOk(r.rd[i], e \o Pad(r.pad), r.tag)
       /\ \E i \in 1..Len(r.rd) : r.rd[i].t = r.t /\ r.rd[i].ok /\ r.rd[i].v = r.v   \* bit-exact round trip with the same type
  ELSE IF r.k = "r" THEN
       \A i \in 1..Len(r.rd) : r.rd[i].ok /\ ReadOk(r.rd[i], r.out \o Pad(r.pad), r.tag)
  ELSE FALSE
Bad == {i \in 1..Len(Recs) : ~Check(Recs[i])}
ASSUME PrintT(<<"ORACLE", Len(Recs), Bad>>)
VARIABLE x
Init == x = 0
Next == x' = x
====
