---- MODULE MC_TarsWire ----
(* The reference checked against itself on an exhaustive small scope (design level).      *)
EXTENDS TarsWire
CONSTANTS Part, Tags16   \* Part selects the theorem group so that groups run as parallel TLC processes
Tags == {0, 1, 14, 15, 16, 255}
B1 == {<<x>> : x \in 0..255}
B2 == {<<x, y>> : x \in 0..255, y \in 0..255}
Edge == {0, 1, 127, 128, 255}
B4e == {<<a, b, c, d>> : a \in Edge, b \in Edge, c \in Edge, d \in Edge}
B8e == {<<a, b, c, d, e, f, g, h>> : a \in {0, 127, 128, 255}, b \in {0, 255}, c \in {0, 255}, d \in {0,255}, e \in {0, 127, 128, 255}, f \in {0, 255}, g \in {0, 127, 128, 255}, h \in {0, 1, 128, 255}}
Dom(t) == CASE TyInfo(t).w = 1 -> (IF t = "bool" THEN {<<0>>, <<1>>} ELSE B1) [] TyInfo(t).w = 2 -> B2 [] TyInfo(t).w = 4 -> B4e [] OTHER -> B8e
\* the types whose readers must accept an encoding written as type t holding value v
Wider(t, v) == {r \in IntTypes \ {"bool"} : InRange(r, Val64(t, v))}
RoundTrip(t, tagset) == \A tag \in tagset : \A v \in Dom(t) :
    LET e == EncInt(t, tag, v) r == ReadField(t, e, tag) IN
    /\ r.ok /\ r.val = v /\ r.p = Len(e) + 1
    /\ \A u \in Wider(t, v) : LET q == ReadField(u, e, tag) IN q.ok /\ q.p = Len(e) + 1 /\ Val64(u, q.val) = Val64(t, v)
\* narrowest: no strictly shorter integer encoding denotes the same value
Narrowest(t) == \A v \in Dom(t) : LET x == Val64(t, v) w == NarrowW(x) IN
    /\ (w = 0) = IsZero(x)
    /\ \A w2 \in {1, 2, 4} : w2 < w => ~Fits(x, w2)
F32 == {<<a, b, c, d>> : a \in {0, 63, 127, 128, 255}, b \in {0, 1, 127, 128, 192, 255}, c \in {0, 255}, d \in {0, 1, 255}}
FloatRT == \A tag \in {0, 15} : \A v \in F32 :
    LET e == EncFloat(tag, v) r == ReadField("float32", e, tag) q == ReadField("float64", e, tag) IN
    /\ r.ok /\ r.val = v /\ r.p = Len(e) + 1
    /\ q.ok /\ q.p = Len(e) + 1 /\ (q.nan = IsNaN32(v))
\* spot values of the widening with known results
WidenKnown ==
    /\ Widen(<<63, 128, 0, 0>>) = <<63, 240, 0, 0, 0, 0, 0, 0>>          \* 1.0
    /\ Widen(<<192, 0, 0, 0>>) = <<192, 0, 0, 0, 0, 0, 0, 0>>            \* -2.0
    /\ Widen(<<0, 0, 0, 1>>) = <<54, 160, 0, 0, 0, 0, 0, 0>>             \* 2^-149
    /\ Widen(<<0, 64, 0, 0>>) = <<56, 0, 0, 0, 0, 0, 0, 0>>              \* 2^-127
    /\ Widen(<<127, 128, 0, 0>>) = <<127, 240, 0, 0, 0, 0, 0, 0>>        \* +inf
    /\ Widen(<<128, 0, 0, 0>>) = <<128, 0, 0, 0, 0, 0, 0, 0>>            \* -0
    /\ Widen(<<62, 170, 170, 171>>) = <<63, 213, 85, 85, 96, 0, 0, 0>>   \* float32(1/3)
Strs == {<<>>, <<0>>, <<255, 0, 65>>, Rep(7, 254), Rep(8, 255), Rep(9, 256), Rep(10, 257), Rep(200, 70000)}
StrRT == \A tag \in Tags : \A s \in Strs :
    LET e == EncString(tag, s) r == ReadField("string", e, tag) IN
    /\ r.ok /\ r.val = s /\ r.p = Len(e) + 1
    /\ (Len(s) <= 255) = (ReadHead(e, 1).ty = STR1)
ASSUME Part = "rt8" => PrintT(<<"THEOREM", "RoundTrip8", \A t \in {"bool", "int8", "uint8"} : RoundTrip(t, 0..255)>>)
ASSUME Part = "rt16" => PrintT(<<"THEOREM", "RoundTrip16", \A t \in {"int16", "uint16"} : RoundTrip(t, Tags16)>>)
ASSUME Part = "rtwide" => PrintT(<<"THEOREM", "RoundTripWide", \A t \in {"int32", "uint32", "int64"} : RoundTrip(t, Tags)>>)
ASSUME Part = "misc" => PrintT(<<"THEOREM", "Narrowest", \A t \in IntTypes : Narrowest(t)>>)
ASSUME Part = "misc" => PrintT(<<"THEOREM", "FloatRT", FloatRT>>)
ASSUME Part = "misc" => PrintT(<<"THEOREM", "WidenKnown", WidenKnown>>)
ASSUME Part = "misc" => PrintT(<<"THEOREM", "StrRT", StrRT>>)
VARIABLE x
Init == x = 0
Next == x' = x
====
