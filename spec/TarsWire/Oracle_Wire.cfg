INIT Init
NEXT Next
