------------------------------ MODULE TarsWire ------------------------------
(* Reference definition of the Tars wire format for primitive fields, over byte          *)
(* sequences.  Values are big-endian byte sequences of the type's width (two's           *)
(* complement; IEEE-754 bits for floats), so no integer above 2^31 is ever needed.        *)
(* Independent of tars/protocol/codec: written from the format definition.               *)
EXTENDS Integers, Sequences, FiniteSets, TLC

\* wire types
BYTE == 0  SHORT == 1  INT == 2  LONG == 3  FLOAT == 4  DOUBLE == 5
STR1 == 6  STR4 == 7  MAP == 8  LIST == 9  SB == 10  SE == 11  ZERO == 12  SL == 13

Err == [ok |-> FALSE]
Rep(x, n) == [i \in 1..n |-> x]
Sub(b, p, n) == SubSeq(b, p, p + n - 1)
Low(bs, n) == SubSeq(bs, Len(bs) - n + 1, Len(bs))
IsZero(bs) == \A i \in 1..Len(bs) : bs[i] = 0
SExt(bs, n) == IF Len(bs) = 0 THEN Rep(0, n) ELSE Rep(IF bs[1] >= 128 THEN 255 ELSE 0, n - Len(bs)) \o bs
ZExt(bs, n) == Rep(0, n - Len(bs)) \o bs
U32(n) == <<n \div 16777216, (n \div 65536) % 256, (n \div 256) % 256, n % 256>>
\* value of up to 4 bytes as a non-negative TLC integer, -1 when it does not fit in 31 bits
ToNat(bs) == LET l == ZExt(bs, 4) IN IF l[1] >= 128 THEN -1 ELSE ((l[1] * 256 + l[2]) * 256 + l[3]) * 256 + l[4]

\* ---------------------------------------------------------------- heads
Hd(ty, tag) == IF tag < 15 THEN <<tag * 16 + ty>> ELSE <<240 + ty, tag>>
ReadHead(b, p) ==
  IF p > Len(b) THEN Err
  ELSE LET x == b[p] ty == x % 16 tg == x \div 16 IN
       IF tg < 15 THEN [ok |-> TRUE, ty |-> ty, tag |-> tg, p |-> p + 1]
       ELSE IF p + 1 > Len(b) THEN Err ELSE [ok |-> TRUE, ty |-> ty, tag |-> b[p + 1], p |-> p + 2]

\* ---------------------------------------------------------------- integers
\* scalar types: value width, signedness, widest wire width the reader of that type accepts
TyInfo(t) == CASE t = "bool"   -> [w |-> 1, signed |-> TRUE,  maxw |-> 1]
               [] t = "int8"   -> [w |-> 1, signed |-> TRUE,  maxw |-> 1]
               [] t = "uint8"  -> [w |-> 1, signed |-> FALSE, maxw |-> 2]
               [] t = "int16"  -> [w |-> 2, signed |-> TRUE,  maxw |-> 2]
               [] t = "uint16" -> [w |-> 2, signed |-> FALSE, maxw |-> 4]
               [] t = "int32"  -> [w |-> 4, signed |-> TRUE,  maxw |-> 4]
               [] t = "uint32" -> [w |-> 4, signed |-> FALSE, maxw |-> 8]
               [] t = "int64"  -> [w |-> 8, signed |-> TRUE,  maxw |-> 8]
IntTypes == {"bool", "int8", "uint8", "int16", "uint16", "int32", "uint32", "int64"}
\* the mathematical value of a typed integer as 8 bytes two's complement
Val64(t, bs) == IF TyInfo(t).signed THEN SExt(bs, 8) ELSE ZExt(bs, 8)
Fits(v, w) == SExt(Low(v, w), 8) = v
NarrowW(v) == IF IsZero(v) THEN 0 ELSE IF Fits(v, 1) THEN 1 ELSE IF Fits(v, 2) THEN 2 ELSE IF Fits(v, 4) THEN 4 ELSE 8
WireOfW(w) == CASE w = 0 -> ZERO [] w = 1 -> BYTE [] w = 2 -> SHORT [] w = 4 -> INT [] w = 8 -> LONG
WidthOfWire(ty) == CASE ty = ZERO -> 0 [] ty = BYTE -> 1 [] ty = SHORT -> 2 [] ty = INT -> 4 [] ty = LONG -> 8 [] OTHER -> -1
\* the narrowest encoding of a 64-bit value: zero marker, else the least width whose sign extension is the value
EncInt64(tag, v) == LET w == NarrowW(v) IN Hd(WireOfW(w), tag) \o Low(v, w)
EncInt(t, tag, bs) == EncInt64(tag, Val64(t, bs))
\* payload of an integer field of wire type ty starting at p, read by a reader of type t
ReadIntPayload(t, b, p, ty) ==
  LET w == WidthOfWire(ty) IN
  IF w < 0 \/ w > TyInfo(t).maxw THEN Err                    \* wire type not admissible for t
  ELSE IF p + w - 1 > Len(b) THEN Err                        \* payload cut short
  ELSE LET v == SExt(Sub(b, p, w), 8) IN
       [ok |-> TRUE, p |-> p + w,
        val |-> IF t = "bool" THEN (IF IsZero(v) THEN <<0>> ELSE <<1>>) ELSE Low(v, TyInfo(t).w)]
\* does value v (8 bytes) of a field lie in the range of type t?  (reads of out-of-range values are not judged)
InRange(t, v) == Val64(t, Low(v, TyInfo(t).w)) = v

\* ---------------------------------------------------------------- floats (bit level)
Bits(bs) == [i \in 1..(8 * Len(bs)) |-> (bs[(i - 1) \div 8 + 1] \div (2 ^ (7 - ((i - 1) % 8)))) % 2]
Pack(bits) == [k \in 1..(Len(bits) \div 8) |->
                 bits[8*k-7] * 128 + bits[8*k-6] * 64 + bits[8*k-5] * 32 + bits[8*k-4] * 16
                 + bits[8*k-3] * 8 + bits[8*k-2] * 4 + bits[8*k-1] * 2 + bits[8*k]]
RECURSIVE BitsToNat(_)
BitsToNat(bits) == IF Len(bits) = 0 THEN 0 ELSE 2 * BitsToNat(SubSeq(bits, 1, Len(bits) - 1)) + bits[Len(bits)]
NatToBits(n, k) == [i \in 1..k |-> (n \div (2 ^ (k - i))) % 2]
Exp32(bs) == BitsToNat(SubSeq(Bits(bs), 2, 9))
Frac32(bs) == BitsToNat(SubSeq(Bits(bs), 10, 32))
IsNaN32(bs) == Exp32(bs) = 255 /\ Frac32(bs) # 0
IsNaN64(bs) == LET b == Bits(bs) IN BitsToNat(SubSeq(b, 2, 12)) = 2047 /\ (\E i \in 13..64 : b[i] = 1)
\* position (1 = most significant of 23) of the leading one of a non-zero subnormal fraction
LeadPos(fb) == CHOOSE i \in 1..23 : fb[i] = 1 /\ \A j \in 1..(i - 1) : fb[j] = 0
\* exact widening float32 -> float64 (defined for non-NaN inputs)
Widen(bs) ==
  LET b == Bits(bs) s == b[1] e == Exp32(bs) fb == SubSeq(b, 10, 32) f == Frac32(bs) IN
  IF e = 0 /\ f = 0 THEN Pack(<<s>> \o Rep(0, 63))
  ELSE IF e = 255 THEN Pack(<<s>> \o Rep(1, 11) \o fb \o Rep(0, 29))
  ELSE IF e > 0 THEN Pack(<<s>> \o NatToBits(e - 127 + 1023, 11) \o fb \o Rep(0, 29))
  ELSE LET k == LeadPos(fb) IN      \* subnormal: value = 0.f * 2^-126 = 1.(bits after the leading one) * 2^(-126-k)
       Pack(<<s>> \o NatToBits(1023 - 126 - k, 11) \o SubSeq(fb, k + 1, 23) \o Rep(0, 29 + k))
EncFloat(tag, bs) == Hd(FLOAT, tag) \o bs
EncDouble(tag, bs) == Hd(DOUBLE, tag) \o bs
\* reader of float (w=4) / double (w=8)
ReadFloatPayload(w, b, p, ty) ==
  IF ty = ZERO THEN [ok |-> TRUE, p |-> p, val |-> Rep(0, w), nan |-> FALSE]
  ELSE IF ty = FLOAT THEN
       IF p + 3 > Len(b) THEN Err
       ELSE LET x == Sub(b, p, 4) IN
            IF w = 4 THEN [ok |-> TRUE, p |-> p + 4, val |-> x, nan |-> FALSE]
            ELSE IF IsNaN32(x) THEN [ok |-> TRUE, p |-> p + 4, val |-> <<>>, nan |-> TRUE]
            ELSE [ok |-> TRUE, p |-> p + 4, val |-> Widen(x), nan |-> FALSE]
  ELSE IF ty = DOUBLE /\ w = 8 THEN
       IF p + 7 > Len(b) THEN Err ELSE [ok |-> TRUE, p |-> p + 8, val |-> Sub(b, p, 8), nan |-> FALSE]
  ELSE Err

\* ---------------------------------------------------------------- strings
EncString(tag, s) == IF Len(s) > 255 THEN Hd(STR4, tag) \o U32(Len(s)) \o s ELSE Hd(STR1, tag) \o <<Len(s)>> \o s
ReadStringPayload(b, p, ty) ==
  IF ty = STR1 THEN
       IF p > Len(b) \/ p + b[p] > Len(b) THEN Err
       ELSE [ok |-> TRUE, val |-> Sub(b, p + 1, b[p]), p |-> p + 1 + b[p]]
  ELSE IF ty = STR4 THEN
       IF p + 3 > Len(b) THEN Err
       ELSE LET n == ToNat(Sub(b, p, 4)) IN
            IF n < 0 \/ n > Len(b) - p - 3 THEN Err ELSE [ok |-> TRUE, val |-> Sub(b, p + 4, n), p |-> p + 4 + n]
  ELSE Err

\* ---------------------------------------------------------------- one tagged primitive field at the front of b
\* t: an integer type, "float32", "float64", "string".  Result [ok, val, p (, nan)].
ReadField(t, b, tag) ==
  LET h == ReadHead(b, 1) IN
  IF ~h.ok \/ h.tag # tag THEN Err
  ELSE IF t \in IntTypes THEN ReadIntPayload(t, b, h.p, h.ty)
  ELSE IF t = "float32" THEN ReadFloatPayload(4, b, h.p, h.ty)
  ELSE IF t = "float64" THEN ReadFloatPayload(8, b, h.p, h.ty)
  ELSE IF t = "string" THEN ReadStringPayload(b, h.p, h.ty)
  ELSE Err
EncField(t, tag, v) ==
  IF t \in IntTypes THEN EncInt(t, tag, v)
  ELSE IF t = "float32" THEN EncFloat(tag, v)
  ELSE IF t = "float64" THEN EncDouble(tag, v)
  ELSE EncString(tag, v)
=============================================================================
