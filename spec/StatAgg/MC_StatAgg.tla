---- MODULE MC_StatAgg ----
EXTENDS StatAgg
VARIABLE dummy
ASSUME PrintT(<<"sequences", Cardinality(SeqsUpTo(MaxLen))>>)
ASSUME Lemmas
MInit == dummy = 0
MNext == UNCHANGED dummy
====
