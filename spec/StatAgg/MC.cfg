CONSTANTS Heads = {1, 2}  Times = {0, 4, 5, 2999, 3000}  MaxLen = 3
INIT MInit
NEXT MNext
