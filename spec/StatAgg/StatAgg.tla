---- MODULE StatAgg ----
(***************************************************************************************************)
(* Aggregation of call statistics between two reports (tars/statf.go: StatFHelper.collectMsg and     *)
(* getIntervCount).  Every call, client side and server side, ends with one report (head = who       *)
(* called whom and how it ended; body = one success / timeout / exception and the response time);    *)
(* the report loop folds them per head until the next tick sends the table to the stat server.       *)
(* The reference below is the fold as a function; what the real step makes of the same reports is     *)
(* judged against it (Oracle_StatAgg).  No listed property speaks of statistics: deviations are       *)
(* recorded as observations in the evidence of C10 (whose subject, Protocol.Invoke, files the server  *)
(* side reports), never as verdicts.                                                                  *)
(***************************************************************************************************)
EXTENDS Integers, Sequences, FiniteSets, TLC

Points == <<5, 10, 50, 100, 200, 500, 1000, 2000, 3000>>      \* the histogram's plot points (ms)
PointSet == {Points[i] : i \in 1 .. Len(Points)}
MinOf(S) == CHOOSE x \in S : \A y \in S : x <= y
MaxOf(S) == CHOOSE x \in S : \A y \in S : x >= y
\* the first plot point above the response time; 0: beyond the last one, counted nowhere
Bucket(t) == LET I == {p \in PointSet : t < p} IN IF I = {} THEN 0 ELSE MinOf(I)

\* a report: head h, one of success / timeout / exception, response time t
First(m) == [count |-> m.c, tcount |-> m.to, ecount |-> m.ex, total |-> m.t, max |-> m.t, min |-> m.t,
             iv |-> [p \in PointSet |-> IF p = Bucket(m.t) THEN 1 ELSE 0], n |-> 1]
Merge(b, m) == [count |-> b.count + m.c, tcount |-> b.tcount + m.to, ecount |-> b.ecount + m.ex, total |-> b.total + m.t,
                max |-> IF b.max < m.t THEN m.t ELSE b.max, min |-> IF b.min > m.t THEN m.t ELSE b.min,
                iv |-> [p \in PointSet |-> b.iv[p] + (IF p = Bucket(m.t) THEN 1 ELSE 0)], n |-> b.n + 1]

RECURSIVE FoldFrom(_, _, _)
FoldFrom(acc, msgs, i) ==
  IF i > Len(msgs) THEN acc
  ELSE LET m == msgs[i] IN
       FoldFrom(IF m.h \in DOMAIN acc THEN [acc EXCEPT ![m.h] = Merge(acc[m.h], m)]
                ELSE [h \in DOMAIN acc \cup {m.h} |-> IF h = m.h THEN First(m) ELSE acc[h]], msgs, i + 1)
Empty == [h \in {} |-> 0]
Fold(msgs) == FoldFrom(Empty, msgs, 1)

----
(* What the fold guarantees, checked by TLC on every sequence of up to MaxLen reports over a small alphabet. *)
CONSTANTS Heads, Times, MaxLen
Kinds == {[c |-> 1, to |-> 0, ex |-> 0], [c |-> 0, to |-> 1, ex |-> 0], [c |-> 0, to |-> 0, ex |-> 1]}
Report == {[h |-> h, c |-> k.c, to |-> k.to, ex |-> k.ex, t |-> t] : h \in Heads, k \in Kinds, t \in Times}
RECURSIVE SeqsUpTo(_)
SeqsUpTo(n) == IF n = 0 THEN {<<>>} ELSE LET S == SeqsUpTo(n - 1) IN S \cup {Append(s, r) : s \in {x \in S : Len(x) = n - 1}, r \in Report}
RECURSIVE SumF(_, _)
SumF(f, S) == IF S = {} THEN 0 ELSE LET x == CHOOSE y \in S : TRUE IN f[x] + SumF(f, S \ {x})
Of(msgs, h) == {i \in 1 .. Len(msgs) : msgs[i].h = h}

\* nothing is lost, nothing counted twice: per head the counters are the sums over that head's reports, the histogram holds
\* every report below the last plot point exactly once, minimum and maximum are those of the reports
Conserves(msgs) ==
  LET f == Fold(msgs) IN
  /\ DOMAIN f = {msgs[i].h : i \in 1 .. Len(msgs)}
  /\ \A h \in DOMAIN f :
       LET I == Of(msgs, h) IN
       /\ f[h].n = Cardinality(I)
       /\ f[h].count + f[h].tcount + f[h].ecount = Cardinality(I)
       /\ f[h].count = Cardinality({i \in I : msgs[i].c = 1})
       /\ f[h].total = SumF([i \in I |-> msgs[i].t], I)
       /\ f[h].max = MaxOf({msgs[i].t : i \in I}) /\ f[h].min = MinOf({msgs[i].t : i \in I})
       /\ SumF(f[h].iv, PointSet) = Cardinality({i \in I : Bucket(msgs[i].t) # 0})
\* the order in which the reports of one interval arrive does not matter
Swap(s, i) == [k \in 1 .. Len(s) |-> IF k = i THEN s[i + 1] ELSE IF k = i + 1 THEN s[i] ELSE s[k]]
OrderFree(msgs) == \A i \in 1 .. Len(msgs) - 1 : Fold(Swap(msgs, i)) = Fold(msgs)
Lemmas == \A s \in SeqsUpTo(MaxLen) : Conserves(s) /\ OrderFree(s)
====
