CONSTANTS Heads = {1}  Times = {0}  MaxLen = 0
INIT OInit
NEXT ONext
