---- MODULE Oracle_StatAgg ----
(* Records {msgs: [[h,c,to,ex,t]...], out: [[h,count,tcount,ecount,total,max,min,n,iv1..iv9]...]} from the real collectMsg. *)
EXTENDS StatAgg, Json
VARIABLE dummy
Recs == ndJsonDeserialize("recs.ndjson")
Msg(x) == [h |-> x[1], c |-> x[2], to |-> x[3], ex |-> x[4], t |-> x[5]]
Row(h, b) == <<h, b.count, b.tcount, b.ecount, b.total, b.max, b.min, b.n>> \o [i \in 1 .. Len(Points) |-> b.iv[Points[i]]]
Good(r) == LET f == Fold([i \in 1 .. Len(r.msgs) |-> Msg(r.msgs[i])])
               rows == {r.out[i] : i \in 1 .. Len(r.out)} IN
           /\ Len(r.out) = Cardinality(DOMAIN f)
           /\ rows = {Row(h, f[h]) : h \in DOMAIN f}
Bad == {i \in 1 .. Len(Recs) : ~Good(Recs[i])}
ASSUME PrintT(<<"ORACLE", Len(Recs), Bad>>)
OInit == dummy = 0
ONext == UNCHANGED dummy
====
