INIT Init
NEXT Next
