INIT Init
NEXT Next
