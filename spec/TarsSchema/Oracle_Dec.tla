---- MODULE Oracle_Dec ----
(* Batch oracle for decoding of arbitrary / mutated input (C04, C05, C06): records from             *)
(* harness/cmd/codecdrive mutants.  The reference is Dec(strict = FALSE), the reader semantics of    *)
(* the format.  Allowed outcomes for input b against schema S:                                       *)
(*   reference decodes b to v            ->  the implementation must return v                         *)
(*   reference rejects b                 ->  the implementation must return an error, or exactly the   *)
(*                                           value of the complete fields present (C06)               *)
EXTENDS TarsSchema, Json
SS == JsonDeserialize("schemas.json").structs
Recs == ndJsonDeserialize("recs.ndjson")
\* end (exclusive) of the longest prefix of b made of complete top-level fields
RECURSIVE CompleteEnd(_, _)
CompleteEnd(b, p) ==
  LET h == ReadHead(b, p) IN
  IF ~h.ok THEN p
  ELSE LET s == SkipField(b, h.p, h.ty) IN IF ~s.ok THEN p ELSE CompleteEnd(b, s.p)
AllocBound(n) == 1024 * n + 65536
Why(r) ==
  LET d == DecTop(SS, r.s, r.bytes, FALSE) IN
  IF r.panic # "" THEN "panic"
  ELSE IF r.hasval /\ ~(d.ok /\ EqStruct(SS, r.s, d.v, r.val)) THEN "reference-vs-expected"
  ELSE IF r.k = "dec" /\ r.alloc > AllocBound(Len(r.bytes)) THEN "alloc"
  ELSE IF d.ok THEN (IF ~r.ok THEN "rejects-valid" ELSE IF EqStruct(SS, r.s, r.dec, d.v) THEN "ok" ELSE "wrong-value")
  ELSE IF ~r.ok THEN "ok"
  ELSE LET c == DecTop(SS, r.s, SubSeq(r.bytes, 1, CompleteEnd(r.bytes, 1) - 1), FALSE) IN
       IF c.ok /\ EqStruct(SS, r.s, r.dec, c.v) THEN "ok" ELSE "accepts-invalid"
Whys == [i \in 1..Len(Recs) |-> Why(Recs[i])]
Bad == {i \in 1..Len(Recs) : Whys[i] # "ok"}
ASSUME PrintT(<<"ORACLE", Len(Recs), Bad>>)
ASSUME PrintT(<<"WHY", {<<i, Whys[i]>> : i \in Bad}>>)
VARIABLE x
Init == x = 0
Next == x' = x
====
