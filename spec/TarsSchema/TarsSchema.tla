----------------------------- MODULE TarsSchema -----------------------------
(* Schema-directed reference codec for Tars structs, over byte sequences.                       *)
(* A schema set SS maps struct names to tag-sorted member sequences                              *)
(*   [name, tag, req, ty, def, hasdef];  types are records with field k:                         *)
(*   "int"(t) "f32" "f64" "str" "bytes"(signed) "vec"(el) "map"(key,val) "struct"(name) "arr"(n,el) *)
(* Values are canonical: scalars as byte sequences, vectors/arrays as sequences, maps as         *)
(* sequences of <<key, value>> in wire order, structs as sequences of member values in tag order. *)
(* Dec(strict = TRUE) accepts exactly the well-formed encodings of the property statement          *)
(* (declared tags only, ascending, at most once, admissible wire types, narrowest integers);      *)
(* Dec(strict = FALSE) is the reader semantics of the format: unknown fields are skipped.         *)
EXTENDS TarsWire

\* ---------------------------------------------------------------- skipping (any well-formed field)
ReadLen(b, p, strict) ==
  LET h == ReadHead(b, p) IN
  IF ~h.ok \/ h.tag # 0 THEN Err
  ELSE LET r == ReadIntPayload("int32", b, h.p, h.ty) IN
       IF ~r.ok THEN Err
       ELSE LET n == ToNat(r.val) IN
            IF n < 0 THEN Err
            ELSE IF strict /\ WidthOfWire(h.ty) # NarrowW(SExt(r.val, 8)) THEN Err
            ELSE [ok |-> TRUE, n |-> n, p |-> r.p]
Adv(b, p, n) == IF n > Len(b) - p + 1 THEN Err ELSE [ok |-> TRUE, p |-> p + n]     \* (overflow-safe form)
RECURSIVE SkipField(_, _, _), SkipToEnd(_, _), SkipN(_, _, _)
SkipN(b, p, n) ==
  IF n = 0 THEN [ok |-> TRUE, p |-> p]
  ELSE LET h == ReadHead(b, p) IN
       IF ~h.ok THEN Err
       ELSE LET s == SkipField(b, h.p, h.ty) IN IF ~s.ok THEN Err ELSE SkipN(b, s.p, n - 1)
SkipToEnd(b, p) ==
  LET h == ReadHead(b, p) IN
  IF ~h.ok THEN Err
  ELSE IF h.ty = SE THEN [ok |-> TRUE, p |-> h.p]
  ELSE LET s == SkipField(b, h.p, h.ty) IN IF ~s.ok THEN Err ELSE SkipToEnd(b, s.p)
SkipField(b, p, ty) ==
  CASE ty = BYTE -> Adv(b, p, 1) [] ty = SHORT -> Adv(b, p, 2) [] ty = INT -> Adv(b, p, 4) [] ty = LONG -> Adv(b, p, 8)
    [] ty = FLOAT -> Adv(b, p, 4) [] ty = DOUBLE -> Adv(b, p, 8) [] ty = ZERO -> [ok |-> TRUE, p |-> p]
    [] ty = STR1 -> IF p > Len(b) THEN Err ELSE Adv(b, p + 1, b[p])
    [] ty = STR4 -> IF p + 3 > Len(b) THEN Err
                    ELSE LET n == ToNat(Sub(b, p, 4)) IN IF n < 0 THEN Err ELSE Adv(b, p + 4, n)
    [] ty = LIST -> LET l == ReadLen(b, p, FALSE) IN IF ~l.ok \/ l.n > Len(b) THEN Err ELSE SkipN(b, l.p, l.n)
    [] ty = MAP -> LET l == ReadLen(b, p, FALSE) IN IF ~l.ok \/ l.n > Len(b) THEN Err ELSE SkipN(b, l.p, 2 * l.n)
    [] ty = SL -> LET h == ReadHead(b, p) IN
                  IF ~h.ok \/ h.ty # BYTE THEN Err
                  ELSE LET l == ReadLen(b, h.p, FALSE) IN IF ~l.ok THEN Err ELSE Adv(b, l.p, l.n)
    [] ty = SB -> SkipToEnd(b, p)
    [] OTHER -> Err

\* position of the field with `tag` among the fields starting at p (fields with smaller tags are skipped;
\* in strict mode there must be none).  Result [ok, have, ty, p]; when absent p is the position of the head
\* that stopped the search.
RECURSIVE Find(_, _, _, _)
Find(b, p, tag, strict) ==
  LET h == ReadHead(b, p) IN
  IF ~h.ok THEN (IF p > Len(b) THEN [ok |-> TRUE, have |-> FALSE, p |-> p] ELSE Err)   \* end of input / cut head
  ELSE IF h.ty = SE \/ h.tag > tag THEN [ok |-> TRUE, have |-> FALSE, p |-> p]
  ELSE IF h.tag = tag THEN [ok |-> TRUE, have |-> TRUE, ty |-> h.ty, p |-> h.p]
  ELSE IF strict THEN Err
  ELSE LET s == SkipField(b, h.p, h.ty) IN IF ~s.ok THEN Err ELSE Find(b, s.p, tag, strict)

\* ---------------------------------------------------------------- decoding
IsScalar(T) == T.k \in {"int", "f32", "f64", "str"}
RECURSIVE DecVal(_, _, _, _, _, _), DecSeq(_, _, _, _, _, _, _), DecMap(_, _, _, _, _, _, _), DecStruct(_, _, _, _, _, _)
\* value of type T whose head (wire type ty) has been consumed; payload starts at p
DecVal(SS, T, b, p, ty, strict) ==
  CASE T.k = "int" ->
         LET r == ReadIntPayload(T.t, b, p, ty) IN
         IF ~r.ok THEN Err
         ELSE IF strict /\ WidthOfWire(ty) # NarrowW(SExt(Sub(b, p, WidthOfWire(ty)), 8)) THEN Err
         ELSE [ok |-> TRUE, v |-> r.val, p |-> r.p]
    [] T.k = "f32" -> LET r == ReadFloatPayload(4, b, p, ty) IN
         IF ~r.ok \/ (strict /\ ty # FLOAT) THEN Err ELSE [ok |-> TRUE, v |-> r.val, p |-> r.p]
    [] T.k = "f64" -> LET r == ReadFloatPayload(8, b, p, ty) IN
         IF ~r.ok \/ (strict /\ ty # DOUBLE) THEN Err
         ELSE [ok |-> TRUE, v |-> (IF r.nan THEN <<127, 248, 0, 0, 0, 0, 0, 0>> ELSE r.val), p |-> r.p]
    [] T.k = "str" -> LET r == ReadStringPayload(b, p, ty) IN
         IF ~r.ok \/ (strict /\ ((ty = STR4) # (Len(r.val) > 255))) THEN Err ELSE [ok |-> TRUE, v |-> r.val, p |-> r.p]
    [] T.k = "bytes" ->
         IF ty = SL THEN
              LET h == ReadHead(b, p) IN
              IF ~h.ok \/ h.ty # BYTE \/ h.tag # 0 THEN Err
              ELSE LET l == ReadLen(b, h.p, strict) IN
                   IF ~l.ok \/ l.n > Len(b) - l.p + 1 THEN Err
                   ELSE [ok |-> TRUE, v |-> Sub(b, l.p, l.n), p |-> l.p + l.n]
         ELSE IF ty = LIST THEN
              LET l == ReadLen(b, p, strict) IN
              IF ~l.ok \/ l.n > Len(b) - l.p + 1 THEN Err
              ELSE LET r == DecSeq(SS, [k |-> "int", t |-> IF T.signed THEN "int8" ELSE "uint8"], b, l.p, l.n, <<>>, strict) IN
                   IF ~r.ok THEN Err ELSE [ok |-> TRUE, v |-> [i \in 1..Len(r.v) |-> r.v[i][1]], p |-> r.p]
         ELSE Err
    [] T.k = "vec" ->
         IF ty # LIST THEN Err
         ELSE LET l == ReadLen(b, p, strict) IN
              IF ~l.ok \/ l.n > Len(b) - l.p + 1 THEN Err ELSE DecSeq(SS, T.el, b, l.p, l.n, <<>>, strict)
    [] T.k = "arr" ->
         IF ty # LIST THEN Err
         ELSE LET l == ReadLen(b, p, strict) IN
              IF ~l.ok \/ l.n # T.n THEN Err ELSE DecSeq(SS, T.el, b, l.p, l.n, <<>>, strict)
    [] T.k = "map" ->
         IF ty # MAP THEN Err
         ELSE LET l == ReadLen(b, p, strict) IN
              IF ~l.ok \/ l.n > Len(b) - l.p + 1 THEN Err ELSE DecMap(SS, T, b, l.p, l.n, <<>>, strict)
    [] T.k = "struct" ->
         IF ty # SB THEN Err
         ELSE LET r == DecStruct(SS, SS[T.name], b, p, 1, strict) IN
              IF ~r.ok THEN Err
              ELSE IF strict THEN (LET h == ReadHead(b, r.p) IN
                                   IF h.ok /\ h.ty = SE /\ h.tag = 0 THEN [ok |-> TRUE, v |-> r.v, p |-> h.p] ELSE Err)
              ELSE LET e == SkipToEnd(b, r.p) IN IF ~e.ok THEN Err ELSE [ok |-> TRUE, v |-> r.v, p |-> e.p]
    [] OTHER -> Err
\* n elements, each a field with tag 0
DecSeq(SS, T, b, p, n, acc, strict) ==
  IF n = 0 THEN [ok |-> TRUE, v |-> acc, p |-> p]
  ELSE LET f == Find(b, p, 0, strict) IN
       IF ~f.ok \/ ~f.have THEN Err
       ELSE LET r == DecVal(SS, T, b, f.p, f.ty, strict) IN
            IF ~r.ok THEN Err ELSE DecSeq(SS, T, b, r.p, n - 1, Append(acc, r.v), strict)
\* n entries: key under tag 0, value under tag 1
DecMap(SS, T, b, p, n, acc, strict) ==
  IF n = 0 THEN [ok |-> TRUE, v |-> acc, p |-> p]
  ELSE LET fk == Find(b, p, 0, strict) IN
       IF ~fk.ok \/ ~fk.have THEN Err
       ELSE LET k == DecVal(SS, T.key, b, fk.p, fk.ty, strict) IN
            IF ~k.ok THEN Err
            ELSE LET fv == Find(b, k.p, 1, strict) IN
                 IF ~fv.ok \/ ~fv.have THEN Err
                 ELSE LET v == DecVal(SS, T.val, b, fv.p, fv.ty, strict) IN
                      IF ~v.ok THEN Err ELSE DecMap(SS, T, b, v.p, n - 1, Append(acc, <<k.v, v.v>>), strict)
\* members i.. of struct S starting at p; absent optional members take their defaults
DecStruct(SS, S, b, p, i, strict) ==
  IF i > Len(S) THEN
       (IF strict THEN (LET h == ReadHead(b, p) IN      \* nothing but the end of the struct may follow
                        IF p > Len(b) \/ (h.ok /\ h.ty = SE) THEN [ok |-> TRUE, v |-> <<>>, p |-> p] ELSE Err)
        ELSE [ok |-> TRUE, v |-> <<>>, p |-> p])
  ELSE LET m == S[i] f == Find(b, p, m.tag, strict) IN
       IF ~f.ok THEN Err
       ELSE IF ~f.have THEN
            (IF m.req THEN Err
             ELSE LET rest == DecStruct(SS, S, b, f.p, i + 1, strict) IN
                  IF ~rest.ok THEN Err ELSE [ok |-> TRUE, v |-> <<m.def>> \o rest.v, p |-> rest.p])
       ELSE LET r == DecVal(SS, m.ty, b, f.p, f.ty, strict) IN
            IF ~r.ok THEN Err
            ELSE LET rest == DecStruct(SS, S, b, r.p, i + 1, strict) IN
                 IF ~rest.ok THEN Err ELSE [ok |-> TRUE, v |-> <<r.v>> \o rest.v, p |-> rest.p]
\* a whole buffer as struct S (the form WriteTo/ReadFrom use: no enclosing StructBegin/End)
DecTop(SS, name, b, strict) ==
  LET d == DecStruct(SS, SS[name], b, 1, 1, strict) IN
  IF ~d.ok THEN Err
  ELSE IF strict /\ d.p # Len(b) + 1 THEN Err
  ELSE d

\* ---------------------------------------------------------------- encoding (the generator's rules)
RECURSIVE Concat(_)
Concat(ss) == IF Len(ss) = 0 THEN <<>> ELSE ss[1] \o Concat(Tail(ss))
EncLen(n) == EncInt("int32", 0, U32(n))
RECURSIVE EncVal(_, _, _, _), EncStruct(_, _, _)
EncVal(SS, T, tag, v) ==
  CASE T.k = "int" -> EncInt(T.t, tag, v)
    [] T.k = "f32" -> EncFloat(tag, v)
    [] T.k = "f64" -> EncDouble(tag, v)
    [] T.k = "str" -> EncString(tag, v)
    [] T.k = "bytes" -> IF T.signed THEN Hd(SL, tag) \o Hd(BYTE, 0) \o EncLen(Len(v)) \o v
                        ELSE Hd(LIST, tag) \o EncLen(Len(v)) \o Concat([i \in 1..Len(v) |-> EncInt("uint8", 0, <<v[i]>>)])
    [] T.k \in {"vec", "arr"} -> Hd(LIST, tag) \o EncLen(Len(v)) \o Concat([i \in 1..Len(v) |-> EncVal(SS, T.el, 0, v[i])])
    [] T.k = "map" -> Hd(MAP, tag) \o EncLen(Len(v)) \o
                      Concat([i \in 1..Len(v) |-> EncVal(SS, T.key, 0, v[i][1]) \o EncVal(SS, T.val, 1, v[i][2])])
    [] T.k = "struct" -> Hd(SB, tag) \o EncStruct(SS, SS[T.name], v) \o Hd(SE, 0)
IsEnum(T) == T.k = "int" /\ "enum" \in DOMAIN T
FZero(v) == \A i \in 2..Len(v) : v[i] = 0 /\ v[1] \in {0, 128}
\* optional members are left out at their default (scalars) or when empty (vectors, maps)
Omitted(m, v) ==
  /\ ~m.req
  /\ \/ m.ty.k \in {"int", "str"} /\ ~IsEnum(m.ty) /\ v = m.def
     \/ m.ty.k \in {"f32", "f64"} /\ (v = m.def \/ (FZero(v) /\ FZero(m.def)))
     \/ m.ty.k \in {"bytes", "vec", "map"} /\ Len(v) = 0
EncStruct(SS, S, v) == Concat([i \in 1..Len(S) |-> IF Omitted(S[i], v[i]) THEN <<>> ELSE EncVal(SS, S[i].ty, S[i].tag, v[i])])

\* ---------------------------------------------------------------- value equality (maps as sets, -0 = +0)
RECURSIVE EqVal(_, _, _, _)
SeqToSet(s) == {s[i] : i \in 1..Len(s)}
EqVal(SS, T, a, e) ==
  CASE T.k \in {"f32", "f64"} -> a = e \/ (FZero(a) /\ FZero(e))
    [] T.k \in {"vec", "arr"} -> Len(a) = Len(e) /\ \A i \in 1..Len(a) : EqVal(SS, T.el, a[i], e[i])
    [] T.k = "map" -> /\ Len(a) = Len(e)
                      /\ \A i \in 1..Len(a) : \E j \in 1..Len(e) : EqVal(SS, T.key, a[i][1], e[j][1]) /\ EqVal(SS, T.val, a[i][2], e[j][2])
                      /\ \A j \in 1..Len(e) : \E i \in 1..Len(a) : EqVal(SS, T.key, a[i][1], e[j][1]) /\ EqVal(SS, T.val, a[i][2], e[j][2])
    [] T.k = "struct" -> LET S == SS[T.name] IN Len(a) = Len(S) /\ Len(e) = Len(S) /\ \A i \in 1..Len(S) : EqVal(SS, S[i].ty, a[i], e[i])
    [] OTHER -> a = e
EqStruct(SS, name, a, e) == EqVal(SS, [k |-> "struct", name |-> name], a, e)
=============================================================================
