---- MODULE Oracle_Schema ----
(* Batch oracle for the generated struct codecs (C03): records from harness/cmd/codecdrive structs.   *)
EXTENDS TarsSchema, Json
SS == JsonDeserialize("schemas.json").structs
Recs == ndJsonDeserialize("recs.ndjson")
\* "enc": v.WriteTo -> bytes -> fresh.ReadFrom;  "encblk": WriteBlock(tag) / ReadBlock(tag)
Check(r) ==
  IF r.k = "enc" THEN
       LET d == DecTop(SS, r.s, r.bytes, TRUE) IN
       /\ ~r.werr /\ r.dec_ok
       /\ d.ok /\ EqStruct(SS, r.s, d.v, r.val)          \* well-formed, and the independent decoder gets the value back
       /\ EqStruct(SS, r.s, r.dec, r.val)                \* the real decoder gets the value back
  ELSE IF r.k = "encblk" THEN
       LET h == ReadHead(r.bytes, 1) IN
       /\ ~r.werr /\ r.dec_ok
       /\ h.ok /\ h.ty = SB /\ h.tag = r.tag
       /\ LET d == DecVal(SS, [k |-> "struct", name |-> r.s], r.bytes, h.p, SB, TRUE) IN
          d.ok /\ d.p = Len(r.bytes) + 1 /\ EqStruct(SS, r.s, d.v, r.val)
       /\ EqStruct(SS, r.s, r.dec, r.val)
  ELSE FALSE
Bad == {i \in 1..Len(Recs) : ~Check(Recs[i])}
ASSUME PrintT(<<"ORACLE", Len(Recs), Bad>>)
VARIABLE x
Init == x = 0
Next == x' = x
====
