---- MODULE MC_TarsSchema ----
(* The reference codec checked against itself on a bounded schema family (design level):        *)
(* round trip through the strict decoder, insensitivity to unknown fields, truncation.           *)
EXTENDS TarsSchema
I16 == [k |-> "int", t |-> "int16"]
U8 == [k |-> "int", t |-> "uint8"]
STR == [k |-> "str"]
M(n, tag, req, ty, def, hd) == [name |-> n, tag |-> tag, req |-> req, ty |-> ty, def |-> def, hasdef |-> hd]
SS == [ In |-> << M("a", 0, TRUE, I16, <<0, 0>>, FALSE), M("s", 1, FALSE, STR, <<100>>, TRUE) >>,
        Out |-> << M("x", 0, TRUE, U8, <<0>>, FALSE),
                  M("o", 3, FALSE, I16, <<255, 254>>, TRUE),
                  M("raw", 14, FALSE, [k |-> "bytes", signed |-> TRUE], <<>>, FALSE),
                  M("v", 15, FALSE, [k |-> "vec", el |-> I16], <<>>, FALSE),
                  M("m", 200, TRUE, [k |-> "map", key |-> STR, val |-> U8], <<>>, FALSE),
                  M("in", 255, TRUE, [k |-> "struct", name |-> "In"], << <<0, 0>>, <<100>> >>, FALSE) >> ]
VI16 == {<<0, 0>>, <<0, 1>>, <<255, 255>>, <<0, 127>>, <<0, 128>>, <<255, 127>>, <<255, 254>>, <<127, 255>>}
VU8 == {<<0>>, <<127>>, <<128>>, <<255>>}
VSTR == {<<>>, <<100>>, <<0, 255>>}
VIn == {<<a, s>> : a \in {<<0, 0>>, <<1, 44>>}, s \in VSTR}
VOut == {<<x, o, raw, v, m, in>> : x \in VU8, o \in {<<0, 0>>, <<255, 254>>, <<0, 128>>}, raw \in {<<>>, <<0, 200>>},
          v \in {<<>>, << <<0, 1>> >>, << <<255, 127>>, <<0, 0>> >>}, m \in {<<>>, << <<<<100>>, <<255>>>> >>, << <<<<>>, <<0>>>>, <<<<1, 2>>, <<128>>>> >>},
          in \in VIn}
Enc(v) == EncStruct(SS, SS["Out"], v)
RoundTrip == \A v \in VOut : LET b == Enc(v) d == DecTop(SS, "Out", b, TRUE) l == DecTop(SS, "Out", b, FALSE) IN
               d.ok /\ d.v = v /\ l.ok /\ l.v = v /\ l.p = Len(b) + 1
\* unknown fields of every wire type under unused tags, inserted where tag order allows
Extra(tag) == { Hd(BYTE, tag) \o <<7>>, Hd(SHORT, tag) \o <<1, 2>>, Hd(INT, tag) \o <<1, 2, 3, 4>>, Hd(LONG, tag) \o Rep(9, 8),
                Hd(FLOAT, tag) \o Rep(1, 4), Hd(DOUBLE, tag) \o Rep(2, 8), Hd(ZERO, tag),
                Hd(STR1, tag) \o <<2, 65, 66>>, Hd(STR4, tag) \o <<0, 0, 0, 1, 67>>,
                Hd(LIST, tag) \o EncLen(2) \o Hd(BYTE, 0) \o <<5>> \o Hd(SB, 0) \o Hd(ZERO, 3) \o Hd(SE, 0),
                Hd(MAP, tag) \o EncLen(1) \o Hd(STR1, 0) \o <<1, 65>> \o Hd(LIST, 1) \o EncLen(0),
                Hd(SL, tag) \o Hd(BYTE, 0) \o EncLen(3) \o <<1, 2, 3>>,
                Hd(SB, tag) \o Hd(BYTE, 0) \o <<1>> \o Hd(SB, 250) \o Hd(SE, 0) \o Hd(SE, 0) }
\* insert field x (tag t) into the top-level field sequence of b at its ordered position
RECURSIVE InsertAt(_, _, _, _)
InsertAt(b, p, t, x) ==
  LET h == ReadHead(b, p) IN
  IF ~h.ok \/ h.tag > t THEN SubSeq(b, 1, p - 1) \o x \o SubSeq(b, p, Len(b))
  ELSE InsertAt(b, SkipField(b, h.p, h.ty).p, t, x)
UnknownSkipped == \A v \in {w \in VOut : w[1] = <<127>>} : \A t \in {1, 2, 4, 13, 16, 199, 201, 254} : \A x \in Extra(t) :
    LET b == InsertAt(Enc(v), 1, t, x) d == DecTop(SS, "Out", b, FALSE) IN
    d.ok /\ d.v = v /\ ~DecTop(SS, "Out", b, TRUE).ok          \* lenient reader: same value; strict: not an encoding of this schema
\* truncation: a proper prefix decodes to an error or to the value of the complete fields only
RECURSIVE CompleteEnd(_, _)
CompleteEnd(b, p) == LET h == ReadHead(b, p) IN IF ~h.ok THEN p ELSE LET s == SkipField(b, h.p, h.ty) IN IF ~s.ok THEN p ELSE CompleteEnd(b, s.p)
Truncation == \A v \in {w \in VOut : w[1] = <<128>>} : LET b == Enc(v) IN \A n \in 0..(Len(b) - 1) :
    LET pre == SubSeq(b, 1, n) d == DecTop(SS, "Out", pre, FALSE) c == DecTop(SS, "Out", SubSeq(pre, 1, CompleteEnd(pre, 1) - 1), FALSE) IN
    d.ok => (c.ok /\ c.v = d.v /\ CompleteEnd(pre, 1) = n + 1)
AbsentRules == LET b == Enc(<< <<0>>, <<255, 254>>, <<>>, <<>>, <<>>, << <<0, 0>>, <<100>> >> >>) IN
    /\ DecTop(SS, "Out", b, TRUE).ok
    /\ Len(b) = 1 + 3 + 4                                    \* x (zero marker), empty map, nested struct with a (zero marker): optionals at default are omitted
    /\ ~DecTop(SS, "Out", SubSeq(b, 2, Len(b)), FALSE).ok      \* required x missing
ASSUME PrintT(<<"THEOREM", "RoundTrip", RoundTrip>>)
ASSUME PrintT(<<"THEOREM", "UnknownSkipped", UnknownSkipped>>)
ASSUME PrintT(<<"THEOREM", "Truncation", Truncation>>)
ASSUME PrintT(<<"THEOREM", "AbsentRules", AbsentRules>>)
ASSUME PrintT(<<"SCOPE", Cardinality(VOut)>>)
VARIABLE x
Init == x = 0
Next == x' = x
====
