CONSTANTS LensChoices <- Choices6  MaxLenChoices = {6}  ChunkMax = 5  JunkChoices = {0, 2}  MaxConns = 2
SPECIFICATION Spec
INVARIANTS TypeOK Aligned OnlyLegalOut ClosedOnlyOnError NoPrematureWait
PROPERTIES AllDelivered
CHECK_DEADLOCK FALSE
