---- MODULE MC_Framing ----
EXTENDS Framing
L6 == {0, 3, 4, 5, 6, 7}
Seqs(S) == {<<>>} \cup {<<a>> : a \in S} \cup {<<a, b>> : a \in S, b \in S} \cup {<<a, b, c>> : a \in S, b \in S, c \in S}
Choices6 == Seqs(L6)
L9 == {4, 8, 9, 10}
Choices9 == {<<a, b, c, d>> : a \in L9, b \in L9, c \in {4, 9}, d \in L9}
====
