CONSTANTS LensChoices <- EmptyChoice  MaxLenChoices = {4}  ChunkMax = 4096  Junk = 6
SPECIFICATION TraceSpec
INVARIANTS TypeOK Aligned OnlyLegalOut ClosedOnlyOnError NoPrematureWait
CONSTRAINT HighWater
POSTCONDITION TraceAccepted
CHECK_DEADLOCK FALSE
