CONSTANTS LensChoices <- EmptyChoice  MaxLenChoices = {4}  ChunkMax = 16777216  Junk = 6
SPECIFICATION TraceSpec
INVARIANTS TypeOK Aligned OnlyLegalOut ClosedOnlyOnError NoPrematureWait
CONSTRAINT HighWater
POSTCONDITION TraceAccepted
CHECK_DEADLOCK FALSE
