CONSTANTS LensChoices <- EmptyChoice  MaxLenChoices = {4}  ChunkMax = 16777216  JunkChoices = {0}  MaxConns = 1000000
SPECIFICATION TraceSpec
INVARIANTS TypeOK Aligned OnlyLegalOut ClosedOnlyOnError NoPrematureWait
CONSTRAINT HighWater
POSTCONDITION TraceAccepted
CHECK_DEADLOCK FALSE
