CONSTANTS LensChoices <- Choices9  MaxLenChoices = {9}  ChunkMax = 40  JunkChoices = {1}  MaxConns = 2
SPECIFICATION Spec
INVARIANTS TypeOK Aligned OnlyLegalOut ClosedOnlyOnError NoPrematureWait
PROPERTIES AllDelivered
CHECK_DEADLOCK FALSE
