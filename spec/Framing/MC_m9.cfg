CONSTANTS LensChoices <- Choices9  MaxLenChoices = {9}  ChunkMax = 40  Junk = 1
SPECIFICATION Spec
INVARIANTS TypeOK Aligned OnlyLegalOut ClosedOnlyOnError NoPrematureWait
PROPERTIES AllDelivered
CHECK_DEADLOCK FALSE
