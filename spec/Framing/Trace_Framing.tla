---- MODULE Trace_Framing ----
(* Trace validation for C07.  One run = one or more successive connections of one receiver (the same    *)
(* client object reconnecting; the same server), each fed with a scripted stream:                        *)
(*   Stream{lens, maxlen, junk, conn}  Read{n} (hook after conn.Read)  Pkg{len, id, uniform} (hook where   *)
(*   the packet is handed to the protocol layer; id = index the harness wrote into every payload byte)    *)
(*   ParseError (hook)  Pause{ms} (the peer was silent for longer than the receiver's read timeout, after  *)
(*   the receiver had dealt with what it had read)  Cut{sent} (the peer closed the connection after sent   *)
(*   bytes of its stream, possibly inside a packet; the next event is the Stream of the next connection)  *)
(*   PeerSawClose / PeerStillOpen / OtherConnOk (harness observations)  End                               *)
EXTENDS Framing, Json
VARIABLE l
EmptyChoice == {<<>>}
Trace == ndJsonDeserialize("trace.ndjson")
tvars == <<vars, l>>
TraceInit == Init /\ l = 1
IsEvent(e) == l <= Len(Trace) /\ Trace[l].e = e /\ l' = l + 1
PrevEvent == IF l = 1 THEN "" ELSE Trace[l - 1].e
\* a stream starts a run (first event, or after the End of the previous run) or follows the Cut of the previous connection
TStream == /\ IsEvent("Stream")
           /\ IF PrevEvent \in {"", "End"} THEN Trace[l].conn = 1
              ELSE PrevEvent = "Cut" /\ pc = "dead" /\ Trace[l].conn = conn
           /\ lens' = Trace[l].lens /\ maxLen' = Trace[l].maxlen /\ junk' = Trace[l].junk /\ conn' = Trace[l].conn
           /\ delivered' = 0 /\ consumed' = 0 /\ nout' = 0 /\ pc' = "reading" /\ closed' = FALSE
TRead == IsEvent("Read") /\ Deliver(Trace[l].n)
\* the packet handed out is exactly the next packet of the stream: its length, its index in every payload byte
TPkg == /\ IsEvent("Pkg") /\ ScanFull
        /\ Trace[l].len = lens[nout + 1] /\ Trace[l].id = nout + 1 /\ Trace[l].uniform
TParseError == IsEvent("ParseError") /\ ScanError
\* the read deadline passed while the peer was silent: whatever part of a packet was buffered is still there afterwards
TPause == IsEvent("Pause") /\ Timeout
\* the connection was cut after the receiver had read what was sent (or had given up on it after a protocol error) and had handed out
\* everything complete in it; what is left of a packet cut short dies with the connection (Cut resets the positions)
TCut == IsEvent("Cut") /\ (closed \/ delivered = Trace[l].sent) /\ Cut
TPeerSawClose == IsEvent("PeerSawClose") /\ closed /\ UNCHANGED vars
TPeerStillOpen == IsEvent("PeerStillOpen") /\ ~closed /\ UNCHANGED vars
TOtherConnOk == IsEvent("OtherConnOk") /\ UNCHANGED vars
\* end of the run: everything legal before the first illegal length was handed out; an illegal length closed the connection
TEnd == /\ IsEvent("End") /\ nout = FirstBad - 1 /\ (FirstBad <= Len(lens) => closed)
        /\ pc \in {"reading", "closed"} /\ UNCHANGED vars
TSilent == ScanLess /\ UNCHANGED l
TraceNext == TStream \/ TRead \/ TPkg \/ TParseError \/ TPause \/ TCut \/ TPeerSawClose \/ TPeerStillOpen \/ TOtherConnOk \/ TEnd \/ TSilent
TraceSpec == TraceInit /\ [][TraceNext]_tvars
ASSUME TLCSet(1, 0)
HighWater == (IF l > TLCGet(1) THEN TLCSet(1, l) ELSE TRUE)
TraceAccepted == /\ PrintT(<<"HWM", TLCGet(1), Len(Trace)>>)
                 /\ TLCGet(1) = Len(Trace) + 1
====
