---- MODULE Trace_Framing ----
(* Trace validation for C07.  One run = one connection fed with a scripted stream:                       *)
(*   Stream{lens, maxlen, junk}  Read{n} (hook after conn.Read)  Pkg{len, id, uniform} (hook where the    *)
(*   packet is handed to the protocol layer; id = index the harness wrote into every payload byte)        *)
(*   ParseError (hook)  PeerSawClose / PeerStillOpen / OtherConnOk (harness observations)  End            *)
EXTENDS Framing, Json
VARIABLE l
EmptyChoice == {<<>>}
Trace == ndJsonDeserialize("trace.ndjson")
tvars == <<vars, l>>
TraceInit == Init /\ l = 1
IsEvent(e) == l <= Len(Trace) /\ Trace[l].e = e /\ l' = l + 1
TStream == /\ IsEvent("Stream")
           /\ lens' = Trace[l].lens /\ maxLen' = Trace[l].maxlen
           /\ delivered' = 0 /\ consumed' = 0 /\ nout' = 0 /\ pc' = "reading" /\ closed' = FALSE
TRead == IsEvent("Read") /\ Deliver(Trace[l].n)
\* the packet handed out is exactly the next packet of the stream: its length, its index in every payload byte
TPkg == /\ IsEvent("Pkg") /\ ScanFull
        /\ Trace[l].len = lens[nout + 1] /\ Trace[l].id = nout + 1 /\ Trace[l].uniform
TParseError == IsEvent("ParseError") /\ ScanError
TPeerSawClose == IsEvent("PeerSawClose") /\ closed /\ UNCHANGED vars
TPeerStillOpen == IsEvent("PeerStillOpen") /\ ~closed /\ UNCHANGED vars
TOtherConnOk == IsEvent("OtherConnOk") /\ UNCHANGED vars
\* end of the run: everything legal before the first illegal length was handed out; an illegal length closed the connection
TEnd == /\ IsEvent("End") /\ nout = FirstBad - 1 /\ (FirstBad <= Len(lens) => closed)
        /\ pc \in {"reading", "closed"} /\ UNCHANGED vars
TSilent == ScanLess /\ UNCHANGED l
TraceNext == TStream \/ TRead \/ TPkg \/ TParseError \/ TPeerSawClose \/ TPeerStillOpen \/ TOtherConnOk \/ TEnd \/ TSilent
TraceSpec == TraceInit /\ [][TraceNext]_tvars
ASSUME TLCSet(1, 0)
HighWater == (IF l > TLCGet(1) THEN TLCSet(1, l) ELSE TRUE)
TraceAccepted == /\ PrintT(<<"HWM", TLCGet(1), Len(Trace)>>)
                 /\ TLCGet(1) = Len(Trace) + 1
====
