------------------------------ MODULE Framing ------------------------------
(* Stream framing of a Tars connection (tars/transport/tcphandler.go recv, tarsclient.go recv,   *)
(* tars/protocol.TarsRequest): the peer sends length-prefixed packets back to back; the          *)
(* receiver appends whatever a read returns to its buffer and runs the scan loop.                *)
(* The stream is determined by the declared lengths, so the state is kept as positions:          *)
(*   delivered  bytes read from the socket so far                                                *)
(*   consumed   bytes handed to the protocol layer (always a packet boundary)                    *)
(*   nout       packets handed out; packet k occupies stream positions Start(k)+1 .. Start(k+1)  *)
(* A declared length < 4 or > maxLen is a protocol error: the connection is closed.              *)
EXTENDS Integers, Sequences, FiniteSets, TLC
CONSTANTS LensChoices,   \* set of sequences of declared packet lengths
          MaxLenChoices, \* set of maximum packet lengths
          ChunkMax,      \* largest number of bytes one read returns
          Junk           \* bytes the peer sends after an illegal header (never framed)
VARIABLES lens, maxLen, delivered, consumed, nout, pc, closed
vars == <<lens, maxLen, delivered, consumed, nout, pc, closed>>
Legal(d) == d >= 4 /\ d <= maxLen
Phys(d) == IF Legal(d) THEN d ELSE 4 + Junk
RECURSIVE SumPhys(_, _)
SumPhys(s, k) == IF k = 0 THEN 0 ELSE SumPhys(s, k - 1) + Phys(s[k])
Total == SumPhys(lens, Len(lens))
Start(k) == SumPhys(lens, k - 1)
\* index of the first packet with an illegal declared length (Len+1 when there is none)
FirstBad == IF \E k \in 1..Len(lens) : ~Legal(lens[k]) THEN CHOOSE k \in 1..Len(lens) : ~Legal(lens[k]) /\ \A j \in 1..(k - 1) : Legal(lens[j])
            ELSE Len(lens) + 1
Min(a, b) == IF a < b THEN a ELSE b

Init == /\ lens \in LensChoices /\ maxLen \in MaxLenChoices
        /\ delivered = 0 /\ consumed = 0 /\ nout = 0 /\ pc = "reading" /\ closed = FALSE
\* one read returns n more bytes of the stream
Deliver(n) == /\ pc = "reading" /\ ~closed /\ n >= 1 /\ n <= Min(ChunkMax, Total - delivered)
              /\ delivered' = delivered + n /\ pc' = "scan"
              /\ UNCHANGED <<lens, maxLen, consumed, nout, closed>>
Avail == delivered - consumed
\* the scan loop, one iteration per step
ScanLess == /\ pc = "scan" /\ (Avail < 4 \/ (Legal(lens[nout + 1]) /\ Avail < lens[nout + 1]))
            /\ pc' = "reading" /\ UNCHANGED <<lens, maxLen, delivered, consumed, nout, closed>>
ScanFull == /\ pc = "scan" /\ Avail >= 4 /\ Legal(lens[nout + 1]) /\ Avail >= lens[nout + 1]
            /\ nout' = nout + 1 /\ consumed' = consumed + lens[nout + 1]
            /\ pc' = IF Avail - lens[nout + 1] > 0 THEN "scan" ELSE "reading"
            /\ UNCHANGED <<lens, maxLen, delivered, closed>>
ScanError == /\ pc = "scan" /\ Avail >= 4 /\ ~Legal(lens[nout + 1])
             /\ closed' = TRUE /\ pc' = "closed" /\ UNCHANGED <<lens, maxLen, delivered, consumed, nout>>
Next == (\E n \in 1..ChunkMax : Deliver(n)) \/ ScanLess \/ ScanFull \/ ScanError
Spec == Init /\ [][Next]_vars /\ WF_vars(Next)

\* ---------------------------------------------------------------- properties (C07)
TypeOK == nout \in 0..Len(lens) /\ consumed <= delivered /\ delivered <= Total
Aligned == consumed = Start(nout + 1)                      \* the buffer always starts at a packet boundary: nothing lost, duplicated or carried over
OnlyLegalOut == nout < FirstBad                            \* nothing at or after the first illegal length is ever handed out
ClosedOnlyOnError == closed => (nout = FirstBad - 1 /\ FirstBad <= Len(lens))
NoPrematureWait == (pc = "reading" /\ ~closed) => (Avail < 4 \/ ~(Legal(lens[nout + 1]) /\ Avail >= lens[nout + 1]))   \* a complete packet is never left in the buffer
\* every legal packet before the first illegal one is eventually handed out; an illegal one closes the connection
AllDelivered == <>(nout = FirstBad - 1 /\ (FirstBad <= Len(lens) => closed))
=============================================================================
