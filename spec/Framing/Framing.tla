------------------------------ MODULE Framing ------------------------------
(* Stream framing of a Tars connection (tars/transport/tcphandler.go recv, tarsclient.go recv,   *)
(* tars/protocol.TarsRequest): the peer sends length-prefixed packets back to back; the          *)
(* receiver appends whatever a read returns to its buffer and runs the scan loop.                *)
(* The stream is determined by the declared lengths, so the state is kept as positions:          *)
(*   delivered  bytes read from the socket so far                                                *)
(*   consumed   bytes handed to the protocol layer (always a packet boundary)                    *)
(*   nout       packets handed out; packet k occupies stream positions Start(k)+1 .. Start(k+1)  *)
(* A declared length < 4 or > maxLen is a protocol error: the connection is closed.              *)
(* A read may also end on its deadline without data (ReadTimeout > 0, action Timeout): nothing   *)
(* changes, the partial packet stays.  A connection may die wherever its stream happens to be,   *)
(* also inside a packet (action Cut); the next connection (the client reconnects on its next     *)
(* Send, the peer dials the server again) starts with an empty buffer: conn counts connections,  *)
(* the positions are those of the current one.                                                   *)
EXTENDS Integers, Sequences, FiniteSets, TLC
CONSTANTS LensChoices,   \* set of sequences of declared packet lengths
          MaxLenChoices, \* set of maximum packet lengths
          ChunkMax,      \* largest number of bytes one read returns
          JunkChoices,   \* numbers of bytes the peer may send after an illegal header (never framed; 0: the header ends the stream)
          MaxConns       \* number of successive connections
VARIABLES lens, maxLen, junk, delivered, consumed, nout, pc, closed, conn
vars == <<lens, maxLen, junk, delivered, consumed, nout, pc, closed, conn>>
Legal(d) == d >= 4 /\ d <= maxLen
Phys(d) == IF Legal(d) THEN d ELSE 4 + junk
RECURSIVE SumPhys(_, _)
SumPhys(s, k) == IF k = 0 THEN 0 ELSE SumPhys(s, k - 1) + Phys(s[k])
Total == SumPhys(lens, Len(lens))
Start(k) == SumPhys(lens, k - 1)
\* index of the first packet with an illegal declared length (Len+1 when there is none)
FirstBad == IF \E k \in 1..Len(lens) : ~Legal(lens[k]) THEN CHOOSE k \in 1..Len(lens) : ~Legal(lens[k]) /\ \A j \in 1..(k - 1) : Legal(lens[j])
            ELSE Len(lens) + 1
Min(a, b) == IF a < b THEN a ELSE b

Init == /\ lens \in LensChoices /\ maxLen \in MaxLenChoices /\ junk \in JunkChoices /\ conn = 1
        /\ delivered = 0 /\ consumed = 0 /\ nout = 0 /\ pc = "reading" /\ closed = FALSE
\* one read returns n more bytes of the stream
Deliver(n) == /\ pc = "reading" /\ ~closed /\ n >= 1 /\ n <= Min(ChunkMax, Total - delivered)
              /\ delivered' = delivered + n /\ pc' = "scan"
              /\ UNCHANGED <<lens, maxLen, junk, conn, consumed, nout, closed>>
Avail == delivered - consumed
\* the scan loop, one iteration per step
ScanLess == /\ pc = "scan" /\ (Avail < 4 \/ (Legal(lens[nout + 1]) /\ Avail < lens[nout + 1]))
            /\ pc' = "reading" /\ UNCHANGED <<lens, maxLen, junk, conn, delivered, consumed, nout, closed>>
ScanFull == /\ pc = "scan" /\ Avail >= 4 /\ Legal(lens[nout + 1]) /\ Avail >= lens[nout + 1]
            /\ nout' = nout + 1 /\ consumed' = consumed + lens[nout + 1]
            /\ pc' = IF Avail - lens[nout + 1] > 0 THEN "scan" ELSE "reading"
            /\ UNCHANGED <<lens, maxLen, junk, conn, delivered, closed>>
ScanError == /\ pc = "scan" /\ Avail >= 4 /\ ~Legal(lens[nout + 1])
             /\ closed' = TRUE /\ pc' = "closed" /\ UNCHANGED <<lens, maxLen, junk, conn, delivered, consumed, nout>>
\* a read ends on its deadline without data: the loop goes round with everything as it was (the partial packet is kept)
Timeout == pc = "reading" /\ ~closed /\ UNCHANGED vars
\* everything that is complete in the bytes read so far has been dealt with: the receiver sits in (or has left for good) conn.Read
Settled == pc \in {"reading", "closed"}
\* the connection dies - at a packet boundary, inside a header, inside a payload, after a protocol error - and nothing of it is left
Cut == /\ Settled /\ conn < MaxConns
       /\ conn' = conn + 1 /\ lens' = <<>> /\ junk' = 0
       /\ delivered' = 0 /\ consumed' = 0 /\ nout' = 0 /\ pc' = "dead" /\ closed' = FALSE /\ UNCHANGED maxLen
\* the next connection (the client reconnects on its next Send, the peer dials the server again) starts from nothing with a stream of its own
Open == /\ pc = "dead" /\ lens' \in LensChoices /\ junk' \in JunkChoices /\ pc' = "reading"
        /\ UNCHANGED <<maxLen, delivered, consumed, nout, closed, conn>>
Next == (\E n \in 1..ChunkMax : Deliver(n)) \/ ScanLess \/ ScanFull \/ ScanError \/ Timeout \/ Cut \/ Open
Spec == Init /\ [][Next]_vars /\ WF_vars(Next)

\* ---------------------------------------------------------------- properties (C07)
TypeOK == nout \in 0..Len(lens) /\ consumed <= delivered /\ delivered <= Total
Aligned == consumed = Start(nout + 1)                      \* the buffer always starts at a packet boundary: nothing lost, duplicated or carried over
OnlyLegalOut == nout < FirstBad                            \* nothing at or after the first illegal length is ever handed out
ClosedOnlyOnError == closed => (nout = FirstBad - 1 /\ FirstBad <= Len(lens))
NoPrematureWait == (pc = "reading" /\ ~closed) => (Avail < 4 \/ ~(Legal(lens[nout + 1]) /\ Avail >= lens[nout + 1]))   \* a complete packet is never left in the buffer
\* every legal packet before the first illegal one is eventually handed out; an illegal one closes the connection
\* (on every connection that is not cut short)
Done == nout = FirstBad - 1 /\ (FirstBad <= Len(lens) => closed)
AllDelivered == \A c \in 1..MaxConns : (conn = c) ~> (conn > c \/ Done)
=============================================================================
